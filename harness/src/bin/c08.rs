//! C08 — a crash or failed write at any instant is recoverable without loss
//! or divergence. For (operation kind x state class) pairs every key-value
//! and file-system mutation of the operation and of the tasks it triggers
//! is a cut; each cut is realised as a crash (restore the on-disk state
//! before the mutation, restart) and as a single failing write on a running
//! instance, followed by the recovery oracles.

use std::collections::{BTreeMap, BTreeSet};
use std::path::PathBuf;
use kvh::hist::{self, Op};
use kvh::hooks::{self, Mutation, SnapCfg};
use kvh::oracle::{self, key_roles};
use kvh::util::{catch, Args, Report, Rng};
use kvh::world::{h, World, WorldCfg};
use krill::commons::eventsourcing::Aggregate;
use serde_json::{json, Value};

type Issue = (String, String);

//------------ pairs ----------------------------------------------------------

struct Pair {
    name: &'static str,
    /// operations that build the state class on top of TA -> p -> c
    setup: Vec<Op>,
    /// the operation under test
    op: Op,
    /// the operation is one that krill must refuse (its only write is the
    /// audit record of the refusal)
    refused: bool,
}

fn roa(ca: &str, add: &[&str], rem: &[&str]) -> Op {
    Op::RoaDelta {
        ca: ca.into(),
        add: add.iter().map(|s| s.to_string()).collect(),
        remove: rem.iter().map(|s| s.to_string()).collect(),
    }
}

fn base_setup() -> Vec<Op> {
    vec![
        Op::AddCa { ca: "p".into(), parent: "ta".into(),
            asn: "AS65000-AS65010".into(), v4: "10.0.0.0/8".into(),
            v6: "2001:db8::/32".into() },
        Op::Quiesce,
        Op::AddCa { ca: "c".into(), parent: "p".into(),
            asn: "AS65000-AS65003".into(),
            v4: "10.0.0.0/16, 10.1.0.0/16".into(), v6: "2001:db8::/48".into() },
        Op::Quiesce,
        roa("c", &["10.0.0.0/24 => 65000", "10.1.0.0/16-18 => 65001"], &[]),
        roa("p", &["10.2.0.0/16 => 65005"], &[]),
        Op::Quiesce, Op::SyncAll, Op::Quiesce,
    ]
}

/// Successful commands on both CAs issued right before the operation under
/// test WITHOUT anything read in between: the aggregate cache is then one
/// command behind the store when the operation starts (the cache is brought
/// up to date by the next access, not by the command itself).
fn primes() -> Vec<Op> {
    vec![
        roa("p", &["10.6.0.0/16 => 65007"], &[]),
        roa("c", &["10.0.8.0/24 => 65003"], &[]),
    ]
}

/// Accepted commands issued after recovery: whatever the instance
/// acknowledges after the fault must survive a restart as well.
fn probes() -> Vec<Op> {
    vec![
        roa("p", &["10.7.0.0/16 => 65008"], &[]),
        roa("c", &["10.0.9.0/24 => 65003"], &[]),
    ]
}

fn pairs() -> Vec<Pair> {
    let upd = |asn: &str, v4: &str, v6: &str| Op::ChildUpdate {
        parent: "p".into(), child: "c".into(), asn: asn.into(),
        v4: v4.into(), v6: v6.into(),
    };
    let roll_new = vec![
        Op::RollInit { ca: "c".into() }, Op::Quiesce, Op::SyncAll, Op::Quiesce,
    ];
    let with_q = vec![
        Op::AddCa { ca: "q".into(), parent: "ta".into(),
            asn: "AS65010-AS65020".into(), v4: "172.16.0.0/12".into(),
            v6: "".into() },
        Op::Quiesce,
        Op::AddParent { ca: "c".into(), parent: "q".into(),
            asn: "AS65015".into(), v4: "172.16.0.0/16".into(), v6: "".into() },
        Op::Quiesce,
        roa("c", &["172.16.0.0/16 => 65015"], &[]), Op::Quiesce,
    ];
    vec![
        // the daily snapshot job (snapshots of every aggregate and of the
        // publication server's content log, followed by the removal of the
        // command / change-set files they cover) is the operation
        Pair { refused: false, name: "update_snapshots/steady", setup: vec![],
            op: Op::UpdateSnapshots },
        Pair { refused: false, name: "roa_delta/steady", setup: vec![],
            op: roa("c", &["10.0.1.0/24 => 65002"], &["10.0.0.0/24-24 => 65000"]) },
        Pair { refused: true, name: "roa_delta_refused/steady", setup: vec![],
            op: roa("c", &["192.168.0.0/24 => 65000"], &[]) },
        Pair { refused: false, name: "roa_delta/roll_new", setup: roll_new.clone(),
            op: roa("c", &["10.0.1.0/24 => 65002"], &[]) },
        Pair { refused: false, name: "aspa_update/steady", setup: vec![],
            op: Op::AspaUpdate { ca: "c".into(),
                add: vec!["65000 => 65001, 65002".into()], remove: vec![] } },
        Pair { refused: false, name: "bgpsec_add/steady", setup: vec![],
            op: Op::BgpsecAdd { ca: "c".into(), asn: 65001, key: 0 } },
        Pair { refused: false, name: "child_update_shrink/steady", setup: vec![],
            op: upd("AS65000-AS65001", "10.0.0.0/16", "") },
        Pair { refused: false, name: "child_update_grow/steady", setup: vec![],
            op: upd("AS65000-AS65005",
                    "10.0.0.0/16, 10.1.0.0/16, 10.3.0.0/16", "2001:db8::/48") },
        Pair { refused: false, name: "child_suspend/steady", setup: vec![],
            op: Op::ChildSuspend { parent: "p".into(), child: "c".into() } },
        Pair { refused: false, name: "child_remove/steady", setup: vec![],
            op: Op::ChildRemove { parent: "p".into(), child: "c".into() } },
        Pair { refused: false, name: "roll_init/steady", setup: vec![],
            op: Op::RollInit { ca: "c".into() } },
        // the same on an instance with more than "a handful" of CAs: the
        // start-up code then does not queue a repository synchronisation for
        // every CA, so a follow-up lost between the command and its
        // scheduling is not rescued by a restart
        Pair { refused: false, name: "roll_init/large_instance", setup: {
                let mut v = vec![];
                for i in 0..5 {
                    v.push(Op::AddCa { ca: format!("x{i}"), parent: "ta".into(),
                        asn: format!("AS651{i}0"), v4: format!("10.{}.0.0/16", 100 + i),
                        v6: "".into() });
                }
                v.push(Op::Quiesce);
                v
            },
            op: Op::RollInit { ca: "c".into() } },
        Pair { refused: false, name: "roll_activate/roll_new", setup: roll_new,
            op: Op::RollActivate { ca: "c".into() } },
        Pair { refused: false, name: "remove_parent/two_parents", setup: with_q,
            op: Op::RemoveParent { ca: "c".into(), parent: "q".into() } },
        Pair { refused: false, name: "republish_force/steady", setup: vec![],
            op: Op::RepublishAll { force: true } },
        Pair { refused: false, name: "force_renew_roas/steady", setup: vec![],
            op: Op::ForceRenewRoas },
        Pair { refused: false, name: "delete_ca/leaf", setup: vec![],
            op: Op::DeleteCa { ca: "c".into() } },
        Pair { refused: false, name: "parent_roll_init/with_child", setup: vec![],
            op: Op::RollInit { ca: "p".into() } },
        Pair { refused: false, name: "add_child/steady", setup: vec![],
            op: Op::AddChildOnly { ca: "d".into(), parent: "p".into(),
                asn: "AS65004".into(), v4: "10.4.0.0/16".into(), v6: "".into() } },
        Pair { refused: false, name: "remove_publisher/with_objects", setup: vec![
                // a CA that was a child of p, published, and was then
                // removed at p: its objects are still at the server
                Op::AddCa { ca: "d".into(), parent: "p".into(),
                    asn: "AS65004".into(), v4: "10.4.0.0/16".into(),
                    v6: "".into() },
                Op::Quiesce,
                roa("d", &["10.4.0.0/24 => 65004"], &[]), Op::Quiesce,
                Op::ChildRemove { parent: "p".into(), child: "d".into() },
                Op::Quiesce,
            ],
            op: Op::RemovePublisher { publisher: "d".into() } },
        Pair { refused: false, name: "add_parent/child_registered", setup: vec![
                Op::AddChildOnly { ca: "d".into(), parent: "p".into(),
                    asn: "AS65004".into(), v4: "10.4.0.0/16".into(),
                    v6: "".into() },
            ],
            op: Op::AddParentOnly { ca: "d".into(), parent: "p".into() } },
    ]
}

//------------ normal form ----------------------------------------------------

/// The observable state up to fresh keys, serial numbers and class names.
fn normal_form(w: &World) -> Value {
    let mut cas = BTreeMap::new();
    let mut owners: BTreeMap<String, String> = BTreeMap::new();
    for ca in w.ca_handles() {
        if ca == "ta" { continue }
        let Ok(c) = w.krill.ca_manager().get_ca(&h(&ca)) else { continue };
        let info = c.as_ca_info();
        let roles = key_roles(w, &ca);
        for k in roles.active.iter().chain(roles.new.iter())
            .chain(roles.old.iter())
        {
            owners.insert(k.clone(), ca.clone());
        }
        let mut roas: Vec<String> = c.configured_roas().iter().map(|r| {
            format!("{} #{}", r.roa_configuration.payload,
                    r.roa_configuration.comment.clone().unwrap_or_default())
        }).collect();
        roas.sort();
        let mut aspas: Vec<String> = c.aspas_definitions_show().as_slice()
            .iter().map(|a| a.to_string()).collect();
        aspas.sort();
        let bgpsec = serde_json::to_value(c.bgpsec_definitions_show()).unwrap();
        let mut bg: Vec<String> = bgpsec.as_array().cloned().unwrap_or_default()
            .iter().map(|d| format!("{}-{}", d["asn"], d["key_identifier"]))
            .collect();
        bg.sort();
        let mut children = BTreeMap::new();
        for ch in &info.children {
            if let Ok(ci) = w.krill.ca_manager().ca_show_child(&h(&ca), ch) {
                children.insert(ch.to_string(), json!({
                    "entitled": ci.entitled_resources.to_string(),
                    "state": format!("{:?}", ci.state),
                }));
            }
        }
        let mut parents: Vec<String> = info.parents.iter()
            .map(|p| p.handle.to_string()).collect();
        parents.sort();
        let mut classes: Vec<String> = info.resource_classes.values().map(|rc| {
            let state = match &rc.keys {
                krill::api::ca::ResourceClassKeysInfo::Pending(_) => "pending",
                krill::api::ca::ResourceClassKeysInfo::Active(_) => "active",
                krill::api::ca::ResourceClassKeysInfo::RollPending(_) => "roll_pending",
                krill::api::ca::ResourceClassKeysInfo::RollNew(_) => "roll_new",
                krill::api::ca::ResourceClassKeysInfo::RollOld(_) => "roll_old",
            };
            format!("{}|{}|{}", rc.parent_handle, state,
                rc.keys.current_resources().map(|r| r.to_string())
                    .unwrap_or_default())
        }).collect();
        classes.sort();
        cas.insert(ca.clone(), json!({
            "parents": parents, "children": children, "roas": roas,
            "aspas": aspas, "bgpsec": bg, "classes": classes,
        }));
    }
    let mut rp = json!({});
    if let Some(obs) = oracle::observe(w) {
        let mut per_ca: BTreeMap<String, BTreeMap<String, u64>> = BTreeMap::new();
        for o in &obs.view.objects {
            let ca = owners.get(&o.issuer_key).cloned()
                .unwrap_or_else(|| "ta".into());
            *per_ca.entry(ca).or_default().entry(o.kind.clone()).or_insert(0) += 1;
        }
        rp = json!({
            "vrps": obs.view.vrps(), "aspas": obs.view.aspas(),
            "router_keys": obs.view.router_keys().iter()
                .map(|(a, _)| *a).collect::<Vec<u32>>(),
            "objects_per_ca": per_ca,
            "issues": obs.view.issues,
        });
    }
    let mut publishers = BTreeMap::new();
    for p in w.krill.repo_manager().publishers().unwrap_or_default() {
        let mut by_ext: BTreeMap<String, u64> = BTreeMap::new();
        if let Ok(d) = w.krill.repo_manager().get_publisher_details(p.clone()) {
            for f in d.current_files {
                let u = f.uri.to_string();
                let ext = u.rsplit('.').next().unwrap_or("").to_string();
                *by_ext.entry(ext).or_insert(0) += 1;
            }
        }
        publishers.insert(p.to_string(), by_ext);
    }
    // what relying parties are actually served: the RRDP snapshot and the
    // rsync tree on disk, counted per publisher directory and file type
    // (content of a removed publisher must be gone from here as well)
    let count = |files: Vec<String>| -> BTreeMap<String, u64> {
        let mut m = BTreeMap::new();
        for u in files {
            let rest = u.split("/repo/").nth(1).unwrap_or(&u).to_string();
            // the trust anchor publishes directly under the base URI
            let dir = if rest.contains('/') {
                rest.split('/').next().unwrap_or("").to_string()
            } else { "(base)".to_string() };
            let ext = u.rsplit('.').next().unwrap_or("").to_string();
            *m.entry(format!("{dir}|{ext}")).or_insert(0u64) += 1;
        }
        m
    };
    let rrdp = match kvh::rrdpview::read_rrdp(&w.repo_dir()) {
        Ok(st) => json!(count(st.snapshot.keys().cloned().collect())),
        Err(e) => json!({"unreadable": e}),
    };
    let rsync = json!(count(
        kvh::rrdpview::read_rsync(&w.repo_dir()).keys().cloned().collect()
    ));
    json!({"cas": cas, "rp": rp, "publishers": publishers,
           "rrdp_snapshot": rrdp, "rsync_tree": rsync})
}

fn first_diff(a: &Value, b: &Value, path: String) -> Option<String> {
    match (a, b) {
        (Value::Object(x), Value::Object(y)) => {
            let keys: BTreeSet<&String> = x.keys().chain(y.keys()).collect();
            for k in keys {
                match (x.get(k), y.get(k)) {
                    (Some(u), Some(v)) => {
                        if let Some(d) = first_diff(u, v, format!("{path}/{k}")) {
                            return Some(d)
                        }
                    }
                    (u, v) => return Some(format!(
                        "{path}/{k}: {} vs {}",
                        u.map(|x| x.to_string()).unwrap_or("absent".into()),
                        v.map(|x| x.to_string()).unwrap_or("absent".into()))),
                }
            }
            None
        }
        _ if a == b => None,
        _ => Some(format!("{path}: {a} vs {b}")),
    }
}

fn versions(w: &World) -> BTreeMap<String, u64> {
    let mut v = BTreeMap::new();
    for ca in w.ca_handles() {
        if let Ok(c) = w.krill.ca_manager().get_ca(&h(&ca)) {
            v.insert(ca, c.version());
        }
    }
    v
}

//------------ recovery oracles -------------------------------------------------

/// O1 + O2: everything loads and nothing acknowledged is lost.
fn loads_and_keeps(
    w: &World, v_pre: &BTreeMap<String, u64>, expect_cas: &BTreeSet<String>,
) -> Vec<Issue> {
    let mut issues = vec![];
    let handles: BTreeSet<String> = w.ca_handles().into_iter().collect();
    for ca in expect_cas {
        if !handles.contains(ca) {
            issues.push(("acknowledged-ca-lost".into(),
                         format!("CA {ca} existed before the operation")));
            continue
        }
        match w.krill.ca_manager().get_ca(&h(ca)) {
            Err(e) => issues.push(("entity-does-not-load".into(),
                                   format!("CA {ca}: {e}"))),
            Ok(c) => {
                if let Some(v) = v_pre.get(ca) {
                    if c.version() < *v {
                        issues.push(("acknowledged-command-lost".into(),
                            format!("CA {ca} version {} < {v} acknowledged \
                                     before the operation", c.version())));
                    }
                }
            }
        }
        if let Err(e) = w.krill.ca_manager().get_ca_status(&h(ca)) {
            issues.push(("status-does-not-load".into(), format!("{ca}: {e}")));
        }
    }
    if let Err(e) = w.krill.ca_manager().get_trust_anchor_proxy() {
        issues.push(("entity-does-not-load".into(), format!("TA proxy: {e}")));
    }
    match w.krill.repo_manager().publishers() {
        Err(e) => issues.push(("entity-does-not-load".into(),
                               format!("repository: {e}"))),
        Ok(ps) => {
            for p in ps {
                if let Err(e) = w.krill.repo_manager().get_publisher_details(p.clone()) {
                    issues.push(("entity-does-not-load".into(),
                                 format!("publisher {p}: {e}")));
                }
            }
        }
    }
    match w.krill.repo_manager().repo_stats() {
        Err(e) => issues.push(("entity-does-not-load".into(),
                               format!("repo stats: {e}"))),
        Ok(stats) => {
            // the publication server's own state is never behind what it
            // has already served: an acknowledged (and served) publication
            // must not be lost to a restart
            if let Ok(disk) = kvh::rrdpview::read_rrdp(&w.repo_dir()) {
                if disk.session == stats.session.to_string()
                    && stats.serial < disk.serial
                {
                    issues.push((
                        "publication-state-behind-served-rrdp".into(),
                        format!("the notification file on disk is at serial \
                                 {} of session {}, the publication server \
                                 loads at serial {}", disk.serial,
                                disk.session, stats.serial),
                    ));
                }
            }
        }
    }
    issues
}

/// Lets background work run for a bounded while (no demand that the queue
/// becomes idle: an interrupted request may leave tasks waiting for it),
/// then O4: the tree is RP-valid and says what is configured.
/// CA left out of the exactness oracle for the pair being run (its publisher
/// is removed on purpose).
static ORACLE_SKIP: std::sync::Mutex<Option<String>> = std::sync::Mutex::new(None);

fn apply_skip(w: &mut World) {
    if let Ok(g) = ORACLE_SKIP.lock() {
        if let Some(ca) = g.as_ref() { w.oracle_skip.insert(ca.clone()); }
    }
}

fn pump_and_validate(w: &mut World) -> Vec<Issue> {
    apply_skip(w);
    for round in 0..2 {
        if round > 0 {
            // every CA calls its parents and synchronises its repository,
            // so that the repository shows the CAs' published-object sets
            w.schedule_sync_all();
            let _ = w.krill.ca_manager().cas_schedule_repo_sync_all(&w.krill);
        }
        let (runs, idle) = w.quiesce_within(15, 80);
        for run in &runs {
            if let Some(f) = run.fatal() {
                return vec![("daemon-would-exit-during-recovery".into(),
                             format!("{}: {f}", run.name()))]
            }
        }
        // tasks that failed on the injected fault come back after 5 minutes
        let idle = if round == 0 && idle {
            let (runs, idle2) = w.quiesce_within(400, 6000);
            for run in &runs {
                if let Some(f) = run.fatal() {
                    return vec![("daemon-would-exit-during-recovery".into(),
                                 format!("{}: {f}", run.name()))]
                }
            }
            idle2
        } else { idle };
        if round == 0 && idle {
            // Whatever was committed before the fault has its follow-up
            // tasks in the queue: the queue alone - without anybody asking
            // for a synchronisation - must bring the repository in line
            // (a follow-up lost inside a claim or a completion shows here).
            if let Some(obs) = oracle::observe(w) {
                let (issues, _) = oracle::c01_check(w, &obs);
                if !issues.is_empty() {
                    return issues.into_iter().map(|(s, d)| {
                        (format!("after-recovery:{s}"), d)
                    }).collect()
                }
            }
        }
    }
    let Some(obs) = oracle::observe(w) else {
        return vec![("no-trust-anchor-after-fault".into(), String::new())]
    };
    let (issues, _) = oracle::c01_check(w, &obs);
    issues.into_iter().map(|(s, d)| (format!("after-recovery:{s}"), d)).collect()
}

/// Catch up completely, then the same oracle.
fn settle_and_validate(w: &mut World) -> Vec<Issue> {
    apply_skip(w);
    // tasks that failed on the injected fault come back after 5 minutes
    let (runs, _) = w.quiesce_within(400, 6000);
    for run in &runs {
        if let Some(f) = run.fatal() {
            return vec![("daemon-would-exit-during-recovery".into(),
                         format!("{}: {f}", run.name()))]
        }
    }
    let (ok, _rounds, fatal) = oracle::catch_up(w, 6);
    if let Some(f) = fatal.first() {
        return vec![("daemon-would-exit-during-recovery".into(), f.clone())]
    }
    if !ok {
        let pending: Vec<String> = w.pending().into_iter()
            .map(|p| p.1).take(6).collect();
        return vec![("does-not-settle".into(),
            format!("queue/hierarchy did not settle; running {:?} pending \
                     {pending:?}", w.running()))]
    }
    let Some(obs) = oracle::observe(w) else {
        return vec![("no-trust-anchor-after-fault".into(), String::new())]
    };
    let (issues, _) = oracle::c01_check(w, &obs);
    issues
}

struct PairCtx {
    /// normal form of the fault-free run after the probe commands
    n_twin_probe: Value,
    /// which probe commands the fault-free run accepted
    probe_ok: Vec<bool>,
    refused: bool,
    cfg: WorldCfg,
    pair_name: &'static str,
    op: Op,
    v_pre: BTreeMap<String, u64>,
    cas_pre: BTreeSet<String>,
    n_twin: Value,
    strip: String,
}

/// Runs the recovery oracles on `w` (already opened on the faulted state).
fn recover_and_compare(
    w: &mut World, ctx: &PairCtx, r: &mut Report,
) -> Vec<Issue> {
    let mut issues = loads_and_keeps(w, &ctx.v_pre, &ctx.cas_pre);
    r.eval();
    if !issues.is_empty() { return issues }
    issues = pump_and_validate(w);
    r.eval();
    if !issues.is_empty() { return issues }
    // O5: submit the interrupted request again
    let out = hist::apply(w, &ctx.op);
    if let hist::Outcome::Panicked(p) = &out {
        return vec![("resubmission-panics".into(), p.clone())]
    }
    r.count(if out.is_ok() { "resubmit_accepted" } else { "resubmit_refused" }, 1);
    issues = settle_and_validate(w);
    r.eval();
    if !issues.is_empty() {
        return issues.into_iter()
            .map(|(s, d)| (format!("after-resubmission:{s}"), d)).collect()
    }
    let n = normal_form(w);
    r.eval();
    if let Some(d) = first_diff(&ctx.n_twin, &n, String::new()) {
        return vec![("state-diverges-from-fault-free-run".into(),
                     format!("fault-free vs recovered: {d}"))]
    }
    // O6: the recovered instance keeps recording: further accepted commands
    // behave as in the fault-free run ...
    for (i, probe) in probes().iter().enumerate() {
        let out = hist::apply(w, probe);
        if let hist::Outcome::Panicked(p) = &out {
            return vec![("probe-panics".into(), p.clone())]
        }
        if out.is_ok() != ctx.probe_ok[i] {
            return vec![("after-probe:outcome-differs".into(),
                format!("{probe:?}: fault-free run {}, recovered instance {out:?}",
                        if ctx.probe_ok[i] { "accepted" } else { "refused" }))]
        }
    }
    issues = settle_and_validate(w);
    r.eval();
    if !issues.is_empty() {
        return issues.into_iter()
            .map(|(s, d)| (format!("after-probe:{s}"), d)).collect()
    }
    if let Some(d) = first_diff(&ctx.n_twin_probe, &normal_form(w), String::new()) {
        return vec![("state-diverges-after-probe".into(),
                     format!("fault-free vs recovered: {d}"))]
    }
    vec![]
}

/// ... and whatever was acknowledged since the fault survives a restart.
fn restart_and_compare(ctx: &PairCtx, r: &mut Report) -> Vec<Issue> {
    let cfg2 = ctx.cfg.clone();
    match catch(move || World::open(cfg2)) {
        Err(p) => vec![("restart-panics".into(), p)],
        Ok(mut w3) => {
            let mut j = loads_and_keeps(&w3, &ctx.v_pre, &ctx.cas_pre);
            if j.is_empty() { j = settle_and_validate(&mut w3) }
            if j.is_empty() {
                if let Some(d) = first_diff(
                    &ctx.n_twin_probe, &normal_form(&w3), String::new())
                {
                    j.push(("state-diverges-after-restart".into(), d));
                }
            }
            r.eval();
            drop(w3);
            j
        }
    }
}

/// Whether an issue is a symptom of stores disagreeing with each other
/// (as opposed to: something does not load, an acknowledged command is
/// lost, a panic).
fn is_consistency_issue(sig: &str) -> bool {
    sig.starts_with("after-recovery:") || sig.starts_with("after-resubmission:")
        || sig.starts_with("after-probe:") || sig.starts_with("state-diverges")
}

/// If cut `n` lies between a pre-save listener write (ca_objects, task
/// queue) and the store of the command that caused it, returns the
/// namespace of that command's aggregate.
fn listener_window(muts: &[Mutation], n: usize, strip: &str) -> Option<String> {
    let is_cmd = |m: &Mutation| m.op == "store" && m.place.contains("/command-");
    let is_listener = |m: &Mutation| {
        let p = m.place.replace(strip, "");
        p.starts_with("/data/ca_objects/") || p.starts_with("/data/tasks/")
    };
    if n >= muts.len() { return None }
    let i = (0..n).rev().find(|k| is_cmd(&muts[*k]));
    let from = i.map(|i| i + 1).unwrap_or(0);
    // a listener wrote since the last command store
    if !(from..n).any(|k| is_listener(&muts[k])) { return None }
    let ns_of = |m: &Mutation| -> Option<String> {
        m.place.replace(strip, "").strip_prefix("/data/")?
            .split('/').next().map(|s| s.to_string())
    };
    if is_cmd(&muts[n]) { return ns_of(&muts[n]) }
    // the command store that closes the window, if the run got that far
    if let Some(j) = (n..muts.len()).find(|k| is_cmd(&muts[*k])) {
        // only listener writes may lie between the cut and that store
        if (n..j).all(|k| is_listener(&muts[k])) { return ns_of(&muts[j]) }
        return None
    }
    // a failing listener write aborts the command: no store follows
    if is_listener(&muts[n]) {
        let cas = (from..n).any(|k| muts[k].place.replace(strip, "")
            .starts_with("/data/ca_objects/"));
        return Some(if cas { "cas".into() } else { "other".into() })
    }
    None
}

fn pick_cuts(muts: &[Mutation], max: usize, rng: &mut Rng) -> Vec<usize> {
    let n = muts.len();
    if n <= max { return (0..n).collect() }
    // in the order in which they are checked (the time budget may end the
    // list early):
    let mut order: Vec<usize> = vec![];
    let mut push = |order: &mut Vec<usize>, k: usize| {
        if !order.contains(&k) { order.push(k) }
    };
    // first the instants right AFTER a command of an aggregate was stored
    // (whatever the code does after committing - scheduling a follow-up,
    // updating another store - has not happened yet), the latest commands of
    // the operation first and one per kind of next mutation; at most half
    // of the cuts
    let mut seen_next = BTreeSet::new();
    // ... those where the next thing is a task being queued come first
    for pass in 0..2 {
        for i in (1..n).rev() {
            let prev = &muts[i - 1];
            let queues_task = muts[i].op == "store"
                && muts[i].place.contains("/tasks/pending");
            if prev.op == "store" && prev.place.contains("/command-")
                && (pass == 1 || queues_task)
                && order.len() < max / 2
                && seen_next.insert(muts[i].label(""))
            {
                push(&mut order, muts[i].n);
            }
        }
    }
    // then distinct labels, then fill randomly
    let mut seen = BTreeSet::new();
    for m in muts {
        let l = m.label("");
        if seen.insert(l) && order.len() < max { push(&mut order, m.n); }
    }
    let mut guard = 0;
    while order.len() < max && guard < 1000 {
        guard += 1;
        push(&mut order, rng.below(n as u64) as usize);
    }
    order
}

fn run_pair(r: &mut Report, args: &Args, pair: &Pair, rng: &mut Rng) {
    *ORACLE_SKIP.lock().unwrap() =
        if pair.name.starts_with("remove_publisher") { Some("d".into()) }
        else { None };
    let dir: PathBuf = args.work.join("w");
    let pre = args.work.join("pre");
    let cuts = args.work.join("cuts");
    for d in [&dir, &pre, &cuts] { let _ = std::fs::remove_dir_all(d); }
    let cfg = WorldCfg::new(&dir);
    let mut w = World::create(cfg.clone());
    w.tie_rng = Rng::new(args.shard_seed());
    let mut setup = base_setup();
    if pair.name.starts_with("add_child") || pair.name.starts_with("add_parent") {
        // the CA to be added exists (with its repository) beforehand
        if let Err(e) = w.init_ca_with_repo("d") {
            r.inconclusive(format!("{}: setup: {e}", pair.name));
            return
        }
    }
    setup.extend(pair.setup.clone());
    for op in &setup {
        let out = hist::apply(&mut w, op);
        if !out.is_ok() {
            r.inconclusive(format!("{}: setup op {op:?}: {out:?}", pair.name));
            return
        }
    }
    let (ok, _, fatal) = oracle::catch_up(&mut w, 10);
    if !ok || !fatal.is_empty() {
        r.inconclusive(format!("{}: setup did not settle", pair.name));
        return
    }
    let cas_pre: BTreeSet<String> = w.ca_handles().into_iter()
        .filter(|c| !matches!((&pair.op, c.as_str()),
                              (Op::DeleteCa { .. }, "c"))).collect();
    let data = w.data_dir();
    let repo = w.repo_dir();
    kvh::util::copy_dir(&data, &pre.join("data")).unwrap();
    kvh::util::copy_dir(&repo, &pre.join("repo")).unwrap();
    // priming commands, nothing read or run afterwards (see primes())
    for p in primes() {
        let out = hist::apply(&mut w, &p);
        if !out.is_ok() {
            r.inconclusive(format!("{}: priming {p:?}: {out:?}", pair.name));
            return
        }
    }
    let v_pre = versions(&w);

    // ---- twin (fault-free) run, recording every mutation ----------------
    let max_cuts = if args.thorough() { 400 } else { 8 };
    hooks::begin(Some(SnapCfg {
        srcs: vec![(data.clone(), "data".into()), (repo.clone(), "repo".into())],
        dst: cuts.clone(), max_cuts: 400,
    }), None, None);
    let out = hist::apply(&mut w, &pair.op);
    let (_runs, _ok) = w.quiesce();
    let (muts, _) = hooks::end();
    if out.is_ok() == pair.refused {
        r.inconclusive(format!("{}: operation {} in the fault-free \
                                run: {out:?}", pair.name,
                               if pair.refused { "accepted" } else { "refused" }));
        return
    }
    let issues = settle_and_validate(&mut w);
    if let Some((s, d)) = issues.first() {
        // the fault-free run itself is not clean: other checks' business
        r.inconclusive(format!("{}: fault-free run: {s}: {d}", pair.name));
        return
    }
    let n_twin = normal_form(&w);
    let mut probe_ok = vec![];
    for probe in probes() { probe_ok.push(hist::apply(&mut w, &probe).is_ok()) }
    let issues = settle_and_validate(&mut w);
    if let Some((s, d)) = issues.first() {
        r.inconclusive(format!("{}: fault-free run after probes: {s}: {d}",
                               pair.name));
        return
    }
    let n_twin_probe = normal_form(&w);
    drop(w);
    let strip = dir.to_string_lossy().to_string();
    r.max("cuts_per_pair", muts.len() as u64);
    r.count("cuts_enumerated", muts.len() as u64);
    r.distinct("pairs", pair.name);
    let ctx = PairCtx {
        cfg: cfg.clone(), pair_name: pair.name, op: pair.op.clone(),
        v_pre, cas_pre, n_twin, strip, n_twin_probe, probe_ok,
        refused: pair.refused,
    };
    if r.samples.len() < 2 {
        r.sample(json!({
            "pair": pair.name, "op": pair.op,
            "mutations": muts.iter().take(60)
                .map(|m| m.label(&ctx.strip)).collect::<Vec<_>>(),
        }));
    }

    let mut chosen = pick_cuts(&muts, max_cuts, rng);
    if let Some(c) = args.extra.get("cut").and_then(|c| c.parse::<usize>().ok()) {
        chosen = vec![c];
    }
    for n in chosen {
        if !r.within_budget() && !args.thorough() { break }
        let m = &muts[n];
        let label = m.label(&ctx.strip);
        let cut_dir = cuts.join(format!("cut{n}"));
        if !cut_dir.exists() { continue }
        for realisation in ["crash", "eio"] {
            let mut eio_list: Vec<Mutation> = vec![];
            r.nontrivial(format!("{}|{realisation}|{label}", ctx.pair_name));
            r.distinct("cut_labels", label.clone());
            kvh::util::mark_inflight(&args.out, &json!({
                "what": "c08 cut", "pair": ctx.pair_name, "cut": n,
                "label": label, "realisation": realisation,
                "exit_is_violation": true,
                "signature": format!("process-exits-during-recovery@{realisation}:{label}"),
            }));
            let wit = json!({"pair": ctx.pair_name, "op": ctx.op, "cut": n,
                             "label": label, "realisation": realisation,
                             "mutations_before": muts.iter().take(n + 1)
                                .map(|m| m.label(&ctx.strip)).collect::<Vec<_>>()});
            let issues: Vec<Issue> = if realisation == "crash" {
                hooks::restore_dir(&cut_dir.join("data"), &data);
                hooks::restore_dir(&cut_dir.join("repo"), &repo);
                let cfg2 = ctx.cfg.clone();
                match catch(move || World::open(cfg2)) {
                    Err(p) => vec![("restart-panics".into(), p)],
                    Ok(mut w2) => {
                        let mut i = recover_and_compare(&mut w2, &ctx, r);
                        drop(w2);
                        if i.is_empty() { i = restart_and_compare(&ctx, r) }
                        i
                    }
                }
            } else {
                hooks::restore_dir(&pre.join("data"), &data);
                hooks::restore_dir(&pre.join("repo"), &repo);
                let mut w2 = World::open_raw(ctx.cfg.clone());
                w2.no_directed = true;
                let mut primed = true;
                for p in primes() { primed &= hist::apply(&mut w2, &p).is_ok() }
                if !primed {
                    r.inconclusive(format!("{}: priming failed before the \
                        failing-write run", ctx.pair_name));
                    drop(w2);
                    continue
                }
                if n % 2 == 1 {
                    // odd cuts: the cache is brought up to date first
                    for ca in w2.ca_handles() { let _ = w2.ca_info(&ca); }
                    r.count("eio_cache_current", 1);
                } else {
                    r.count("eio_cache_behind", 1);
                }
                hooks::begin(None, Some(n), None);
                let out = hist::apply(&mut w2, &ctx.op);
                let (runs, _) = w2.quiesce();
                let (fmuts, injected) = hooks::end();
                // the n-th mutation of THIS run is the one that failed; task
                // order may differ from the recording run
                eio_list = fmuts;
                if !injected {
                    r.count("eio_not_reached", 1);
                    drop(w2);
                    continue
                }
                r.count(if out.is_ok() { "eio_op_ok" } else { "eio_op_err" }, 1);
                if let hist::Outcome::Panicked(p) = &out {
                    r.violation(
                        &format!("panic-on-failed-write@{label}"), p, wit.clone());
                    drop(w2);
                    continue
                }
                let exits = runs.iter().any(|t| t.fatal().is_some());
                let mut i: Vec<Issue> = vec![];
                if exits {
                    // the real daemon stops here and is started again
                    r.count("eio_daemon_exit_then_restart", 1);
                    drop(w2);
                    let cfg2 = ctx.cfg.clone();
                    match catch(move || World::open(cfg2)) {
                        Err(p) => i.push(("restart-panics".into(), p)),
                        Ok(mut w3) => {
                            i = recover_and_compare(&mut w3, &ctx, r);
                            drop(w3);
                            if i.is_empty() { i = restart_and_compare(&ctx, r) }
                        }
                    }
                } else {
                    i = recover_and_compare(&mut w2, &ctx, r);
                    drop(w2);
                    if i.is_empty() { i = restart_and_compare(&ctx, r) }
                }
                i
            };
            r.count(&format!("cut_checks_{realisation}"), 1);
            if let Some((sig, detail)) = issues.first() {
                let (list, label) = if realisation == "eio" && eio_list.len() > n {
                    (&eio_list, eio_list[n].label(&ctx.strip))
                } else { (&muts, label.clone()) };
                let sig = match listener_window(list, n, &ctx.strip) {
                    Some(ns) if is_consistency_issue(sig) => {
                        r.count("in_listener_window", 1);
                        format!("listener-state-ahead-of-command-log:{ns}")
                    }
                    _ => sig.clone(),
                };
                // One root cause, many file names: the publication server's
                // content log advances BEFORE the RRDP files and the rsync
                // tree are written. A crash or failing write in that stage
                // leaves the files as they were; the task is run again, finds
                // nothing staged and does not write them again, so what is
                // served stays behind the accepted content until the next
                // publication.
                let rsync_stage = label.starts_with("fs:")
                    && (label.contains("/repo/rsync/")
                        || label.contains("/repo/rrdp/"))
                    && sig.starts_with("state-diverges")
                    && (detail.contains("/rsync_tree/")
                        || detail.contains("/rrdp_snapshot/"));
                let sig = if rsync_stage {
                    "served-files-stale-after-interrupted-write".to_string()
                } else { sig };
                let label = if sig.starts_with("listener-state-ahead") {
                    "window".to_string()
                } else if rsync_stage {
                    "files-stage".to_string()
                } else { label.clone() };
                r.violation(
                    &format!("{sig}@{realisation}:{label}"),
                    &format!("{}: cut {n} before {label}: {detail}",
                             ctx.pair_name),
                    wit,
                );
            }
        }
    }
    for d in [&dir, &pre, &cuts] { let _ = std::fs::remove_dir_all(d); }
}

fn main() {
    let args = Args::parse();
    let mut r = Report::new("C08", &args);
    if args.replay.is_some() {
        println!("replay: C08 witnesses name pair and cut; re-run with \
                  --pair <name> (all cuts of that pair)");
        r.write();
        return
    }
    let mut rng = Rng::new(args.shard_seed());
    let all = pairs();
    let only = args.extra.get("pair").cloned();
    // always-covered pairs first, then the rest rotated by seed
    let mut order: Vec<usize> = (0..all.len()).collect();
    let rot = (args.seed as usize) % all.len();
    order.rotate_left(rot);
    let mine: Vec<usize> = order.into_iter().enumerate()
        .filter(|(i, _)| (*i as u64) % args.nshards == args.shard)
        .map(|(_, p)| p).collect();
    for p in mine {
        if let Some(o) = &only { if all[p].name != o { continue } }
        if !r.within_budget() { break }
        run_pair(&mut r, &args, &all[p], &mut rng);
        let _ = std::fs::write(args.work.join("partial.json"),
            serde_json::to_vec(&r.to_json()).unwrap());
    }
    r.write();
}
