//! C19 — reported parent, repository and child status matches the last
//! exchange.
//!
//! One disk world per history: TA -> {p, q}, p -> {c1, c2}, q -> c2 (c2 has
//! two parents; in some histories c2 calls q by the local name "up/q").
//! The harness performs every exchange itself at the boundary
//! (`ca_sync_parent`, `cas_repo_sync_single`, a harness-played RFC 6492
//! request through `CaManager::rfc6492`), records Ok/Err of that attempt and
//! compares the status views right after it. Background tasks only run when
//! the harness pumps; pumped SyncParent / SyncRepo tasks are read back from
//! the task log and judged the same way (FollowUp/Done = the attempt
//! succeeded, Reschedule = it failed).
//!
//! Refusals have real causes only: child removed at the parent, parent CA
//! deleted, publisher removed at the server, unsupported request payload,
//! request signed with the wrong identity key.

use std::collections::{BTreeMap, BTreeSet};
use std::str::FromStr;
use kvh::util::{catch, Args, Report, Rng};
use kvh::world::{h, roa, roa_payload, rs, Completion, TaskRun, World, WorldCfg};
use krill::api::admin::ParentCaReq;
use krill::api::ca::{
    ChildStatus, ExchangeResult, ParentStatus, RepoStatus, Timestamp,
};
use krill::api::status::ErrorResponse;
use krill::commons::error::Error as KrillError;
use krill::server::mq::Task;
use rpki::ca::idexchange::{ChildHandle, ParentHandle, PublisherHandle};
use rpki::ca::provisioning;
use rpki::repository::resources::ResourceSet;
use serde_json::{json, Value};

const TA: &str = "ta";
const AGENT: &str = "kvh-child/1";

type Files = Vec<(String, String)>;
type Issue = (String, String);

fn now_s() -> i64 { i64::from(Timestamp::now()) }
fn ts(t: Timestamp) -> i64 { i64::from(t) }
fn ph(s: &str) -> ParentHandle { ParentHandle::from_str(s).expect("parent") }
fn ch(s: &str) -> ChildHandle { ChildHandle::from_str(s).expect("child") }

fn err_json(e: &ErrorResponse) -> Value {
    json!({"label": e.label, "msg": e.msg})
}

//------------ view readers --------------------------------------------------

fn parent_status(w: &World, ca: &str, lp: &str) -> Option<ParentStatus> {
    w.krill.ca_manager().get_parent_statuses(&h(ca)).ok()?
        .get(&ph(lp)).cloned()
}

fn repo_status(w: &World, ca: &str) -> Option<RepoStatus> {
    w.krill.ca_manager().get_repo_status(&h(ca)).ok()
}

fn child_status(w: &World, parent: &str, child: &str) -> Option<ChildStatus> {
    w.krill.ca_manager().get_ca_status(&h(parent)).ok()?
        .children().get(&ch(child)).cloned()
}

/// (repo issue, parent -> issue) of the issues view.
fn issues_view(
    w: &World, ca: &str
) -> Option<(Option<ErrorResponse>, BTreeMap<String, ErrorResponse>)> {
    let i = w.krill.ca_manager().get_ca_issues(&h(ca)).ok()?;
    let mut parents = BTreeMap::new();
    for pi in i.parent_issues() {
        parents.insert(pi.parent.to_string(), pi.issue.clone());
    }
    Some((i.repo_issue().cloned(), parents))
}

fn server_files(w: &World, publisher: &str) -> Option<Files> {
    let p: PublisherHandle = h(publisher).convert();
    let d = w.krill.repo_manager().get_publisher_details(p).ok()?;
    let mut v: Files = d.current_files.iter().map(|f| {
        (f.uri.to_string(), f.base64.to_hash().to_string())
    }).collect();
    v.sort();
    Some(v)
}

fn shadow_files(s: &RepoStatus) -> Files {
    let mut v: Files = s.published.iter().map(|f| {
        (f.uri.to_string(), f.base64.to_hash().to_string())
    }).collect();
    v.sort();
    v
}

fn duplicates(files: &Files) -> Vec<String> {
    let mut seen = BTreeSet::new();
    let mut dup = BTreeSet::new();
    for (u, _) in files {
        if !seen.insert(u.clone()) { dup.insert(u.clone()); }
    }
    dup.into_iter().collect()
}

/// The full status of a CA as JSON, normalised for order-insensitive parts.
fn full_view(w: &World, ca: &str) -> Option<Value> {
    let st = w.krill.ca_manager().get_ca_status(&h(ca)).ok()?;
    let mut conn: Vec<Value> = st.get_children_connection_stats().children
        .iter().map(|c| serde_json::to_value(c).unwrap()).collect();
    conn.sort_by_key(|v| v["handle"].as_str().unwrap_or("").to_string());
    let issues = w.krill.ca_manager().get_ca_issues(&h(ca)).ok().map(|i| {
        let mut p: Vec<Value> = i.parent_issues().iter()
            .map(|x| serde_json::to_value(x).unwrap()).collect();
        p.sort_by_key(|v| v["parent"].as_str().unwrap_or("").to_string());
        json!({"repo": i.repo_issue(), "parents": p})
    });
    let v = serde_json::to_value(&st).unwrap();
    Some(json!({
        "repo": v["repo"], "parents": v["parents"],
        "children": v.get("children").cloned().unwrap_or(json!({})),
        "connections": conn, "issues": issues,
    }))
}

/// The classes the parent would put into a list reply right now.
fn parent_list_now(w: &World, real: &str, child: &str) -> Option<Vec<Value>> {
    let k = &w.krill;
    if real == TA {
        let proxy = k.ca_manager().get_trust_anchor_proxy().ok()?;
        let e = proxy.entitlements(&ch(child), &k.config().ta_timing).ok()?;
        Some(vec![serde_json::to_value(&e).unwrap()])
    } else {
        let p = k.ca_manager().get_ca(&h(real)).ok()?;
        let l = p.list(&ch(child), &k.config().issuance_timing).ok()?;
        Some(l.classes().iter().map(|c| serde_json::to_value(c).unwrap())
            .collect())
    }
}

fn strip_not_after(classes: &[Value]) -> Vec<Value> {
    let mut v: Vec<Value> = classes.iter().map(|c| {
        let mut c = c.clone();
        if let Some(o) = c.as_object_mut() { o.remove("not_after"); }
        c
    }).collect();
    v.sort_by_key(|c| c["class_name"].to_string());
    v
}

fn not_after_close(a: &[Value], b: &[Value]) -> bool {
    let get = |v: &[Value]| -> BTreeMap<String, i64> {
        v.iter().filter_map(|c| {
            let t = chrono::DateTime::parse_from_rfc3339(
                c["not_after"].as_str()?
            ).ok()?.timestamp();
            Some((c["class_name"].to_string(), t))
        }).collect()
    };
    let (a, b) = (get(a), get(b));
    a.len() == b.len() && a.iter().all(|(k, t)| {
        b.get(k).map(|u| (t - u).abs() <= 30).unwrap_or(false)
    })
}

//------------ History -------------------------------------------------------

struct Hist<'a> {
    r: &'a mut Report,
    rng: Rng,
    w: Option<World>,
    log: Vec<Value>,
    desc: Value,
    /// existing CAs (without the TA)
    cas: BTreeSet<String>,
    /// (ca, local parent name) -> real parent CA
    links: BTreeMap<(String, String), String>,
    /// (real parent, child) registered at the parent -> entitled resources
    kids: BTreeMap<(String, String), ResourceSet>,
    /// what the TA / p were given (for the independent entitlement check)
    held: BTreeMap<String, ResourceSet>,
    pub_removed: BTreeSet<String>,
    /// CAs whose last repository touch was a successful synchronisation
    repo_clean: BTreeSet<String>,
    /// CAs whose publisher was re-created and not yet synchronised
    recreated: BTreeSet<String>,
    /// CAs whose publisher was re-created at some point of this history
    recreated_ever: BTreeSet<String>,
    roas: BTreeMap<String, BTreeSet<String>>,
    rolling: BTreeSet<String>,
    qname: String,
    log_seen: usize,
    stop: bool,
    reported: BTreeSet<String>,
    last_pump: (i64, i64),
}

impl<'a> Hist<'a> {
    fn w(&self) -> &World { self.w.as_ref().unwrap() }
    fn wm(&mut self) -> &mut World { self.w.as_mut().unwrap() }

    fn step(&mut self, v: Value) { self.log.push(v); }

    fn viol(&mut self, sig: &str, detail: String) {
        // one report per signature and history keeps witnesses readable
        if !self.reported.insert(sig.to_string()) {
            self.r.count("violations_repeated_in_history", 1);
            return
        }
        let witness = json!({"desc": self.desc, "steps": self.log});
        self.r.violation(sig, &detail, witness);
    }

    /// A compared case: the (kind, outcome, cause) triple counts as the
    /// distinct non-trivial case; the state it happened in is kept apart.
    fn case(&mut self, triple: String, tag: &str) {
        self.r.distinct("qualified_cases", format!("{triple}{}", sem(tag)));
        self.r.nontrivial(triple);
    }

    fn report(&mut self, issues: Vec<Issue>) {
        for (s, d) in issues { self.viol(&s, d) }
    }

    fn real_parent(&self, ca: &str, lp: &str) -> Option<String> {
        self.links.get(&(ca.to_string(), lp.to_string())).cloned()
    }

    /// Why the counter-party must refuse (ca -> parent), if it must.
    fn parent_refusal(&self, ca: &str, lp: &str) -> Option<(&'static str, String)> {
        let real = self.real_parent(ca, lp)?;
        if real != TA && !self.cas.contains(&real) {
            return Some(("parent-deleted", real))
        }
        if !self.kids.contains_key(&(real.clone(), ca.to_string())) {
            return Some(("child-removed", ca.to_string()))
        }
        None
    }

    fn parents_of(&self, ca: &str) -> Vec<String> {
        self.links.keys().filter(|k| k.0 == ca).map(|k| k.1.clone()).collect()
    }

    //--- oracles -----------------------------------------------------------

    /// Judges the status of (ca, lp) after an attempt with known outcome.
    #[allow(clippy::too_many_arguments)]
    fn judge_parent(
        &mut self, ca: &str, lp: &str, how: &str, ok: bool,
        err: Option<ErrorResponse>, window: (i64, i64),
        s0: Option<ParentStatus>, list_path: Option<bool>, tag: &str,
    ) {
        let real = self.real_parent(ca, lp).unwrap_or_default();
        let refusal = self.parent_refusal(ca, lp);
        let s1 = parent_status(self.w(), ca, lp);
        let iss = issues_view(self.w(), ca);
        let mut out: Vec<Issue> = vec![];
        let id = format!("{ca}->{lp}");
        self.r.eval();
        self.r.count(&format!("exchanges_parent_{how}"), 1);
        if ok {
            let cause = match list_path {
                Some(true) => "list", Some(false) => "requests", None => "task",
            };
            self.case(format!("{how}-parent-sync/ok/{cause}"), tag);
            match s1.as_ref().and_then(|s| s.last_exchange.as_ref()) {
                None => out.push((
                    "parent-status-missing-after-ok-sync".into(),
                    format!("{id}: sync succeeded, no last exchange shown"),
                )),
                Some(ex) => {
                    if let ExchangeResult::Failure(e) = &ex.result {
                        out.push((
                            "parent-status-failure-after-ok-sync".into(),
                            format!("{id}: last attempt ({how}) succeeded \
                                but the status shows failure {}", err_json(e)),
                        ));
                    }
                    let t = ts(ex.timestamp);
                    if t < window.0 || t > window.1 {
                        out.push((
                            "parent-status-timestamp-not-last-exchange".into(),
                            format!("{id}: exchange at {t}, attempt in \
                                {window:?}"),
                        ));
                    }
                    let s = s1.as_ref().unwrap();
                    if s.last_success != Some(ex.timestamp)
                        && ex.result.was_success()
                    {
                        out.push((
                            "parent-status-last-success-not-updated".into(),
                            format!("{id}: last_success {:?} after a \
                                successful exchange at {t}",
                                s.last_success.map(ts)),
                        ));
                    }
                }
            }
            if let Some((_, parents)) = &iss {
                if let Some(e) = parents.get(lp) {
                    out.push((
                        "issues-view-parent-issue-after-ok-sync".into(),
                        format!("{id}: issues view shows {}", err_json(e)),
                    ));
                }
            }
            // entitlements
            if let Some(s) = &s1 {
                let shown: Vec<Value> = s.classes.iter()
                    .map(|c| serde_json::to_value(c).unwrap()).collect();
                match list_path {
                    Some(true) => {
                        self.r.eval();
                        self.r.count("entitlement_comparisons", 1);
                        if let Some(exp) = parent_list_now(self.w(), &real, ca) {
                            if strip_not_after(&shown) != strip_not_after(&exp) {
                                out.push((
                                    "parent-entitlements-differ-from-list-reply".into(),
                                    format!("{id}: status shows {} but the \
                                        parent's list reply is {}",
                                        summarize_classes(&shown),
                                        summarize_classes(&exp)),
                                ));
                            } else if !not_after_close(&shown, &exp) {
                                out.push((
                                    "parent-entitlements-not-after-differs".into(),
                                    format!("{id}: not_after differs"),
                                ));
                            }
                        }
                        // independent: configured ∩ what the parent holds
                        if let (Some(ent), Some(hold)) = (
                            self.kids.get(&(real.clone(), ca.to_string())),
                            self.held.get(&real),
                        ) {
                            let exp = ent.intersection(hold);
                            if s.all_resources != exp {
                                out.push((
                                    "parent-entitled-resources-differ-from-configured".into(),
                                    format!("{id}: status shows '{}', \
                                        parent configured '{}' of held '{}'",
                                        s.all_resources, ent, hold),
                                ));
                            }
                            let mut union = ResourceSet::default();
                            for c in &s.classes {
                                union = union.union(c.resource_set());
                            }
                            if union != s.all_resources {
                                out.push((
                                    "parent-all-resources-not-union-of-classes".into(),
                                    format!("{id}: all '{}' classes '{}'",
                                        s.all_resources, union),
                                ));
                            }
                        }
                    }
                    Some(false) => {
                        if let Some(s0) = &s0 {
                            self.r.eval();
                            if s0.classes != s.classes
                                || s0.all_resources != s.all_resources
                            {
                                out.push((
                                    "parent-entitlements-changed-without-list".into(),
                                    format!("{id}: entitlements changed by \
                                        an exchange that sent requests only"),
                                ));
                            }
                        }
                    }
                    None => {}
                }
            }
        } else if let Some((cause, keyword)) = refusal {
            self.case(format!("{how}-parent-sync/refused/{cause}"), tag);
            match s1.as_ref().and_then(|s| s.last_exchange.as_ref()) {
                None => out.push((
                    format!("parent-status-missing-after-refused-sync:{cause}"),
                    format!("{id}: the parent refused, nothing shown"),
                )),
                Some(ex) => {
                    match &ex.result {
                        ExchangeResult::Success => out.push((
                            format!("parent-status-success-after-refused-sync:{cause}"),
                            format!("{id}: last attempt ({how}) was refused \
                                ({:?}) but the status shows success",
                                err.as_ref().map(err_json)),
                        )),
                        ExchangeResult::Failure(e) => {
                            self.r.eval();
                            self.r.count("error_comparisons", 1);
                            let same_label = err.as_ref()
                                .map(|x| x.label == e.label).unwrap_or(true);
                            if e.msg.is_empty() || !same_label
                                || !e.msg.contains(&keyword)
                            {
                                out.push((
                                    format!("parent-status-error-not-last-error:{cause}"),
                                    format!("{id}: shown {} / returned {:?}",
                                        err_json(e),
                                        err.as_ref().map(err_json)),
                                ));
                            }
                            if err.as_ref() == Some(e) {
                                self.r.count("error_exact_matches", 1);
                            }
                            match iss.as_ref().and_then(|i| i.1.get(lp)) {
                                Some(ie) if ie == e => {}
                                other => out.push((
                                    "issues-view-parent-issue-differs".into(),
                                    format!("{id}: status {} issues view {:?}",
                                        err_json(e), other.map(err_json)),
                                )),
                            }
                        }
                    }
                    let t = ts(ex.timestamp);
                    if t < window.0 || t > window.1 {
                        out.push((
                            "parent-status-timestamp-not-last-exchange".into(),
                            format!("{id}: exchange at {t}, refused attempt \
                                in {window:?}"),
                        ));
                    }
                }
            }
            if let (Some(s0), Some(s1)) = (&s0, &s1) {
                self.r.eval();
                // one attempt can consist of several exchanges (revocation
                // requests, then certificate requests): a success recorded
                // within the attempt is fine, anything else is not
                if s0.last_success != s1.last_success
                    && !s1.last_success.map(|t| {
                        ts(t) >= window.0 && ts(t) <= window.1
                    }).unwrap_or(false)
                {
                    out.push((
                        "parent-status-last-success-moved-by-failure".into(),
                        format!("{id} ({how}): {:?} -> {:?}, window {window:?}",
                            s0.last_success.map(ts), s1.last_success.map(ts)),
                    ));
                }
                if s0.classes != s1.classes {
                    out.push((
                        "parent-entitlements-changed-by-failure".into(),
                        format!("{id}: classes changed by a refused exchange"),
                    ));
                }
            }
        } else {
            // failed without a refusal by the counter-party: recorded only
            self.r.count("unasserted_parent_failures", 1);
            self.r.distinct("unasserted", format!(
                "{how}-parent:{}",
                err.as_ref().map(|e| e.label.clone()).unwrap_or_default()
            ));
        }
        self.report(out);
    }

    /// The child's entry at the parent after the child's request.
    fn judge_child(
        &mut self, parent: &str, child: &str, how: &str, ok: Option<bool>,
        err: Option<ErrorResponse>, window: (i64, i64),
        c0: Option<ChildStatus>, agent: &str, tag: &str,
    ) {
        if parent != TA && !self.cas.contains(parent) { return }
        let registered = self.kids.contains_key(
            &(parent.to_string(), child.to_string())
        );
        let c1 = child_status(self.w(), parent, child);
        if parent == TA && c1.is_none() && c0.is_none() {
            // the TA status is not exposed through the CA views
            return
        }
        let id = format!("{child}@{parent}");
        let mut out: Vec<Issue> = vec![];
        self.r.eval();
        self.r.count(&format!("exchanges_child_{how}"), 1);
        if !registered {
            self.case(format!("{how}-child-request/refused/child-removed"), tag);
            if c1.is_some() {
                out.push((
                    "child-status-survives-child-remove".into(),
                    format!("{id}: entry (re)appeared for a removed child \
                        after its request: {}",
                        serde_json::to_value(&c1).unwrap()),
                ));
            }
            self.report(out);
            return
        }
        match ok {
            Some(true) => {
                self.case(format!("{how}-child-request/ok/{agent}"), tag);
                match c1.as_ref().and_then(|c| c.last_exchange.as_ref()) {
                    None => out.push((
                        "child-status-missing-after-ok-request".into(),
                        format!("{id}: nothing shown"),
                    )),
                    Some(ex) => {
                        if let ExchangeResult::Failure(e) = &ex.result {
                            out.push((
                                "child-status-failure-after-ok-request".into(),
                                format!("{id}: shows {}", err_json(e)),
                            ));
                        }
                        let t = ts(ex.timestamp);
                        if t < window.0 || t > window.1 {
                            out.push((
                                "child-status-timestamp-not-last-request".into(),
                                format!("{id}: {t} not in {window:?}"),
                            ));
                        }
                        if ex.user_agent.as_deref() != Some(agent) {
                            out.push((
                                "child-status-user-agent-not-last-request".into(),
                                format!("{id}: {:?} instead of {agent}",
                                    ex.user_agent),
                            ));
                        }
                        let c = c1.as_ref().unwrap();
                        if ex.result.was_success()
                            && c.last_success != Some(ex.timestamp)
                        {
                            out.push((
                                "child-status-last-success-not-updated".into(),
                                format!("{id}: {:?}", c.last_success.map(ts)),
                            ));
                        }
                    }
                }
            }
            Some(false) => {
                self.case(format!("{how}-child-request/refused/{agent}"), tag);
                match c1.as_ref().and_then(|c| c.last_exchange.as_ref()) {
                    None => out.push((
                        "child-status-missing-after-refused-request".into(),
                        format!("{id}: nothing shown"),
                    )),
                    Some(ex) => {
                        match &ex.result {
                            ExchangeResult::Success => out.push((
                                "child-status-success-after-refused-request".into(),
                                format!("{id}: request refused with {:?}",
                                    err.as_ref().map(err_json)),
                            )),
                            ExchangeResult::Failure(e) => {
                                let same = err.as_ref()
                                    .map(|x| x.label == e.label
                                         && x.msg == e.msg).unwrap_or(true);
                                if e.msg.is_empty() || !same {
                                    out.push((
                                        "child-status-error-not-last-error".into(),
                                        format!("{id}: shown {} returned {:?}",
                                            err_json(e),
                                            err.as_ref().map(err_json)),
                                    ));
                                }
                            }
                        }
                        let t = ts(ex.timestamp);
                        if t < window.0 || t > window.1 {
                            out.push((
                                "child-status-timestamp-not-last-request".into(),
                                format!("{id}: {t} not in {window:?}"),
                            ));
                        }
                    }
                }
                if let (Some(c0), Some(c1)) = (&c0, &c1) {
                    if c0.last_success != c1.last_success {
                        out.push((
                            "child-status-last-success-moved-by-failure".into(),
                            format!("{id}"),
                        ));
                    }
                }
            }
            None => {
                // unauthenticated request: must not be shown as a success
                // of this child
                self.case(format!("{how}-child-request/unauthenticated"), tag);
                let same = serde_json::to_value(&c0).unwrap()
                    == serde_json::to_value(&c1).unwrap();
                let failure = c1.as_ref()
                    .and_then(|c| c.last_exchange.as_ref())
                    .map(|e| !e.result.was_success()).unwrap_or(false);
                if !same && !failure {
                    out.push((
                        "child-status-success-after-unauthenticated-request".into(),
                        format!("{id}: {} -> {}",
                            serde_json::to_value(&c0).unwrap(),
                            serde_json::to_value(&c1).unwrap()),
                    ));
                }
            }
        }
        self.report(out);
    }

    /// Judges the repository status of `ca` after an attempt.
    fn judge_repo(
        &mut self, ca: &str, how: &str, ok: bool, err: Option<ErrorResponse>,
        window: (i64, i64), s0: Option<RepoStatus>, tag: &str,
    ) {
        let Some(s1) = repo_status(self.w(), ca) else {
            if ca != TA { self.r.count("repo_status_unreadable", 1); }
            return
        };
        let iss = issues_view(self.w(), ca);
        let mut out: Vec<Issue> = vec![];
        self.r.eval();
        self.r.count(&format!("exchanges_repo_{how}"), 1);
        let removed = self.pub_removed.contains(ca);
        if ok {
            let recreated = self.recreated.remove(ca);
            let changed = s0.as_ref()
                .map(|s| shadow_files(s) != shadow_files(&s1)).unwrap_or(true);
            let cause = if recreated { "republish-after-publisher-recreated" }
                else if changed { "delta" } else { "no-change" };
            self.case(format!("{how}-repo-sync/ok/{cause}"), tag);
            match &s1.last_exchange {
                None => out.push((
                    "repo-status-missing-after-ok-sync".into(),
                    format!("{ca}: nothing shown"),
                )),
                Some(ex) => {
                    if let ExchangeResult::Failure(e) = &ex.result {
                        out.push((
                            "repo-status-failure-after-ok-sync".into(),
                            format!("{ca}: last attempt ({how}) succeeded, \
                                status shows {}", err_json(e)),
                        ));
                    }
                    let t = ts(ex.timestamp);
                    if t < window.0 || t > window.1 {
                        out.push((
                            "repo-status-timestamp-not-last-exchange".into(),
                            format!("{ca}: {t} not in {window:?}"),
                        ));
                    }
                    if ex.result.was_success()
                        && s1.last_success != Some(ex.timestamp)
                    {
                        out.push((
                            "repo-status-last-success-not-updated".into(),
                            format!("{ca}: {:?}", s1.last_success.map(ts)),
                        ));
                    }
                }
            }
            if let Some((Some(e), _)) = &iss {
                out.push((
                    "issues-view-repo-issue-after-ok-sync".into(),
                    format!("{ca}: {}", err_json(e)),
                ));
            }
            self.repo_clean.insert(ca.to_string());
            out.extend(self.compare_files(ca, &s1, "after-sync"));
        } else if removed {
            self.case(format!("{how}-repo-sync/refused/publisher-removed"), tag);
            match &s1.last_exchange {
                None => out.push((
                    "repo-status-missing-after-refused-sync".into(),
                    format!("{ca}: nothing shown"),
                )),
                Some(ex) => {
                    match &ex.result {
                        ExchangeResult::Success => out.push((
                            "repo-status-success-after-refused-sync:publisher-removed".into(),
                            format!("{ca}: server refused with {:?}",
                                err.as_ref().map(err_json)),
                        )),
                        ExchangeResult::Failure(e) => {
                            self.r.eval();
                            self.r.count("error_comparisons", 1);
                            let same_label = err.as_ref()
                                .map(|x| x.label == e.label).unwrap_or(true);
                            if e.msg.is_empty() || !same_label
                                || !e.msg.contains(ca)
                            {
                                out.push((
                                    "repo-status-error-not-last-error:publisher-removed".into(),
                                    format!("{ca}: shown {} returned {:?}",
                                        err_json(e),
                                        err.as_ref().map(err_json)),
                                ));
                            }
                            if err.as_ref() == Some(e) {
                                self.r.count("error_exact_matches", 1);
                            }
                            match iss.as_ref().and_then(|i| i.0.as_ref()) {
                                Some(ie) if ie == e => {}
                                other => out.push((
                                    "issues-view-repo-issue-differs".into(),
                                    format!("{ca}: status {} issues {:?}",
                                        err_json(e), other.map(err_json)),
                                )),
                            }
                        }
                    }
                    let t = ts(ex.timestamp);
                    if t < window.0 || t > window.1 {
                        out.push((
                            "repo-status-timestamp-not-last-exchange".into(),
                            format!("{ca}: {t} not in {window:?}"),
                        ));
                    }
                }
            }
            if let Some(s0) = &s0 {
                self.r.eval();
                // the list query of the same attempt may have succeeded
                // before the delta was refused
                if s0.last_success != s1.last_success
                    && !s1.last_success.map(|t| {
                        ts(t) >= window.0 && ts(t) <= window.1
                    }).unwrap_or(false)
                {
                    out.push((
                        "repo-status-last-success-moved-by-failure".into(),
                        format!("{ca} ({how}): last_success {:?} -> {:?}, \
                            exchange {:?} -> {:?}, window {window:?}",
                            s0.last_success.map(ts), s1.last_success.map(ts),
                            s0.last_exchange.as_ref().map(|e| (ts(e.timestamp), e.result.was_success())),
                            s1.last_exchange.as_ref().map(|e| (ts(e.timestamp), e.result.was_success()))),
                    ));
                }
                if s0.published != s1.published {
                    out.push((
                        "repo-published-list-changed-by-refused-sync".into(),
                        format!("{ca}: {} -> {} entries",
                            s0.published.len(), s1.published.len()),
                    ));
                }
            }
        } else {
            self.repo_clean.remove(ca);
            self.r.count("unasserted_repo_failures", 1);
            self.r.distinct("unasserted", format!(
                "{how}-repo:{}",
                err.as_ref().map(|e| e.label.clone()).unwrap_or_default()
            ));
        }
        self.report(out);
    }

    /// Shadow list of published objects against the server's content.
    ///
    /// The signature says whether the publisher of this CA was re-created
    /// earlier in the history (everything after that is a consequence of
    /// the same re-publication) or not.
    fn compare_files(&mut self, ca: &str, s: &RepoStatus, at: &str) -> Vec<Issue> {
        let mut out = vec![];
        let ctx = if self.recreated_ever.contains(ca) {
            "after-publisher-recreated"
        } else { "in-normal-operation" };
        let shadow = shadow_files(s);
        self.r.eval();
        self.r.count("published_list_comparisons", 1);
        self.r.max("published_list_len", shadow.len() as u64);
        let dups = duplicates(&shadow);
        if !dups.is_empty() {
            self.r.count("duplicate_entries_found", dups.len() as u64);
            out.push((
                format!("repo-published-list-duplicates:{ctx}"),
                format!("{ca} ({at}): {} entries, duplicated uris: {:?}",
                    shadow.len(), dups),
            ));
        }
        if let Some(server) = server_files(self.w(), ca) {
            let a: BTreeSet<_> = shadow.iter().cloned().collect();
            let b: BTreeSet<_> = server.iter().cloned().collect();
            if a != b {
                let only_shadow: Vec<_> = a.difference(&b).take(4).collect();
                let only_server: Vec<_> = b.difference(&a).take(4).collect();
                // three different things, three signatures: an object the
                // server holds is listed with other content / an object the
                // server holds is not listed / entries for objects the
                // server does not hold (any more)
                let server_uris: BTreeSet<&String> =
                    b.iter().map(|x| &x.0).collect();
                let shadow_uris: BTreeSet<&String> =
                    a.iter().map(|x| &x.0).collect();
                let content_differs = a.difference(&b)
                    .any(|x| server_uris.contains(&x.0));
                let unlisted = b.difference(&a)
                    .any(|x| !shadow_uris.contains(&x.0));
                let kind = if content_differs {
                    "repo-published-list-content-differs-from-server"
                } else if unlisted {
                    "repo-published-list-misses-server-objects"
                } else {
                    "repo-published-list-differs-from-server"
                };
                out.push((
                    format!("{kind}:{ctx}"),
                    format!("{ca} ({at}): only in status {only_shadow:?}, \
                        only at server {only_server:?}"),
                ));
            } else if shadow != server && dups.is_empty() {
                out.push((
                    format!("repo-published-list-multiset-differs:{ctx}"),
                    format!("{ca}: {} vs {} entries", shadow.len(),
                        server.len()),
                ));
            }
        }
        out
    }

    /// View invariants that hold whatever the last exchange was.
    fn consistency(&mut self, tag: &str) {
        let mut out: Vec<Issue> = vec![];
        let mut names: Vec<String> = self.cas.iter().cloned().collect();
        names.push(TA.to_string());
        for ca in names {
            let Ok(st) = self.w().krill.ca_manager().get_ca_status(&h(&ca))
            else { continue };
            self.r.eval();
            self.r.count("consistency_checks", 1);
            // entries only for current parents / registered children
            for (p, _) in st.parents().iter() {
                if !self.links.contains_key(&(ca.clone(), p.to_string())) {
                    out.push((
                        "parent-status-survives-remove-parent".into(),
                        format!("{ca}: status entry for parent {p} which is \
                            not a parent ({tag})"),
                    ));
                }
            }
            for c in st.children().keys() {
                if !self.kids.contains_key(&(ca.clone(), c.to_string())) {
                    out.push((
                        "child-status-survives-child-remove".into(),
                        format!("{ca}: status entry for child {c} which is \
                            not registered ({tag})"),
                    ));
                }
            }
            // issues view = failures of the status view
            if let Some((ri, pi)) = issues_view(self.w(), &ca) {
                if ri != st.repo().opt_failure() {
                    out.push((
                        "issues-view-repo-issue-differs".into(),
                        format!("{ca}: ({tag})"),
                    ));
                }
                let exp: BTreeMap<String, ErrorResponse> = st.parents().iter()
                    .filter_map(|(p, s)| {
                        s.opt_failure().map(|e| (p.to_string(), e))
                    }).collect();
                if exp != pi {
                    out.push((
                        "issues-view-parent-issue-differs".into(),
                        format!("{ca}: status failures {:?}, issues {:?} \
                            ({tag})", exp.keys(), pi.keys()),
                    ));
                }
            }
            // timestamps ordered
            let rs = st.repo();
            if let (Some(ex), Some(ls)) = (&rs.last_exchange, rs.last_success) {
                if ts(ls) > ts(ex.timestamp) {
                    out.push((
                        "repo-status-last-success-after-last-exchange".into(),
                        format!("{ca}"),
                    ));
                }
            }
            // shadow list, whenever the last touch was a good sync
            if self.repo_clean.contains(&ca) && !self.pub_removed.contains(&ca) {
                let rs = rs.clone();
                out.extend(self.compare_files(&ca, &rs, "settled"));
            } else {
                let d = duplicates(&shadow_files(rs));
                if !d.is_empty() {
                    self.r.count("duplicate_entries_found", d.len() as u64);
                    let ctx = if self.recreated_ever.contains(&ca) {
                        "after-publisher-recreated"
                    } else { "in-normal-operation" };
                    out.push((
                        format!("repo-published-list-duplicates:{ctx}"),
                        format!("{ca} (unsettled): {d:?}"),
                    ));
                }
            }
        }
        self.report(out);
    }

    //--- exchanges at the boundary ------------------------------------------

    fn sync_parent(&mut self, ca: &str, lp: &str, tag: &str) -> bool {
        let Some(real) = self.real_parent(ca, lp) else { return false };
        if !self.cas.contains(ca) { return false }
        let s0 = parent_status(self.w(), ca, lp);
        let c0 = child_status(self.w(), &real, ca);
        let pending = self.w().krill.ca_manager().get_ca(&h(ca))
            .map(|c| c.has_pending_requests(&ph(lp))).unwrap_or(false);
        let suspended = self.w().krill.ca_manager()
            .ca_show_child(&h(&real), &ch(ca))
            .map(|i| serde_json::to_value(i.state).unwrap() == json!("suspended"))
            .unwrap_or(false);
        let t0 = now_s();
        let res = {
            let w = self.w();
            catch(|| w.krill.ca_manager().ca_sync_parent(
                &h(ca), 0, &ph(lp), &w.actor, &w.slow
            ))
        };
        let t1 = now_s();
        let (ok, err) = match res {
            Err(p) => {
                self.r.inconclusive(format!("panic in ca_sync_parent: {p}"));
                self.stop = true;
                return false
            }
            Ok(Ok(_)) => (true, None),
            Ok(Err(e)) => (false, Some(e.to_error_response())),
        };
        let mut tag = tag.to_string();
        if suspended { tag.push_str("+suspended-child") }
        if self.rolling.contains(ca) { tag.push_str("+rolling") }
        if lp.contains('/') { tag.push_str("+slash-name") }
        self.step(json!({"op": "sync_parent", "ca": ca, "parent": lp,
            "ok": ok, "err": err.as_ref().map(err_json),
            "pending_requests": pending, "tag": tag}));
        self.judge_parent(
            ca, lp, "explicit", ok, err.clone(), (t0, t1), s0,
            Some(!pending), &tag,
        );
        // what the parent shows for this child
        let child_ok = if ok { Some(true) }
            else if self.parent_refusal(ca, lp).is_some() { Some(false) }
            else { return ok };
        if child_ok == Some(false) {
            // a removed child: the entry must stay away; a deleted parent
            // has no views
            if self.kids.contains_key(&(real.clone(), ca.to_string())) {
                return ok
            }
        }
        self.judge_child(
            &real, ca, "explicit", child_ok, err, (t0, t1), c0,
            "local-child", &tag,
        );
        if ok && suspended {
            // a suspended child calling in is active again
            let st = self.w().krill.ca_manager()
                .ca_show_child(&h(&real), &ch(ca)).ok()
                .map(|i| serde_json::to_value(i.state).unwrap());
            self.r.eval();
            if st != Some(json!("active")) {
                self.viol("suspended-child-not-unsuspended-by-request",
                    format!("{ca}@{real}: state {st:?}"));
            }
        }
        ok
    }

    fn sync_repo(&mut self, ca: &str, tag: &str) -> bool {
        if ca != TA && !self.cas.contains(ca) { return false }
        let s0 = repo_status(self.w(), ca);
        let t0 = now_s();
        let res = {
            let w = self.w();
            catch(|| w.krill.ca_manager().cas_repo_sync_single(
                &h(ca), 0, &w.slow
            ))
        };
        let t1 = now_s();
        let (ok, err) = match res {
            Err(p) => {
                self.r.inconclusive(format!("panic in cas_repo_sync_single: {p}"));
                self.stop = true;
                return false
            }
            Ok(Ok(_)) => (true, None),
            Ok(Err(e)) => (false, Some(e.to_error_response())),
        };
        let mut tag = tag.to_string();
        if self.rolling.contains(ca) { tag.push_str("+rolling") }
        self.step(json!({"op": "sync_repo", "ca": ca, "ok": ok,
            "err": err.as_ref().map(err_json), "tag": tag}));
        self.judge_repo(ca, "explicit", ok, err, (t0, t1), s0, &tag);
        ok
    }

    /// A request played by the harness in the child's name (CMS path).
    fn child_request(&mut self, parent: &str, child: &str, kind: &str) {
        if !self.cas.contains(parent) || !self.cas.contains(child) { return }
        let signer_ca = if kind == "wrong-key" {
            if child == "c1" { "c2" } else { "c1" }
        } else { child };
        if !self.cas.contains(signer_ca) { return }
        let c0 = child_status(self.w(), parent, child);
        let t0 = now_s();
        let res = {
            let w = self.w();
            let k = &w.krill;
            let Ok(sca) = k.ca_manager().get_ca(&h(signer_ca)) else { return };
            let key = sca.id_cert().public_key.key_identifier();
            let sender = h(child).convert();
            let recipient = h(parent).convert();
            let msg = match kind {
                "unsupported" => provisioning::Message::list_response(
                    sender, recipient,
                    provisioning::ResourceClassListResponse::new(vec![]),
                ),
                _ => provisioning::Message::list(sender, recipient),
            };
            let cms = match k.signer().create_rfc6492_cms(msg, &key) {
                Ok(c) => c.to_bytes(),
                Err(e) => {
                    self.r.inconclusive(format!("cannot sign request: {e}"));
                    return
                }
            };
            catch(|| k.ca_manager().rfc6492(
                &h(parent), cms, Some(AGENT.to_string()), &w.actor, k
            ))
        };
        let t1 = now_s();
        let (ok, err) = match res {
            Err(p) => {
                self.r.inconclusive(format!("panic in rfc6492: {p}"));
                self.stop = true;
                return
            }
            Ok(Ok(_)) => (true, None),
            Ok(Err(e)) => (false, Some(e.to_error_response())),
        };
        self.step(json!({"op": "child_request", "parent": parent,
            "child": child, "kind": kind, "ok": ok,
            "err": err.as_ref().map(err_json)}));
        let registered = self.kids.contains_key(
            &(parent.to_string(), child.to_string())
        );
        let verdict = match (kind, ok) {
            ("wrong-key", false) => None,
            ("wrong-key", true) => {
                self.r.count("wrong_key_request_accepted", 1);
                return
            }
            (_, true) => Some(true),
            ("unsupported", false) => Some(false),
            (_, false) if !registered => Some(false),
            (_, false) => {
                self.r.count("unasserted_child_failures", 1);
                return
            }
        };
        let tag = format!("+{kind}");
        self.judge_child(
            parent, child, "played", verdict, err, (t0, t1), c0, AGENT, &tag,
        );
    }

    //--- background work ----------------------------------------------------

    /// Pumps background tasks and judges the exchanges they made.
    fn pump(&mut self, tag: &str) {
        let t0 = now_s();
        let before: BTreeMap<String, Option<RepoStatus>> = self.cas.iter()
            .chain(std::iter::once(&TA.to_string()))
            .map(|c| (c.clone(), repo_status(self.w(), c))).collect();
        let pbefore: BTreeMap<(String, String), Option<ParentStatus>> =
            self.links.keys().map(|k| {
                (k.clone(), parent_status(self.w(), &k.0, &k.1))
            }).collect();
        let cbefore: BTreeMap<(String, String), Option<ChildStatus>> =
            self.kids.keys().map(|k| {
                (k.clone(), child_status(self.w(), &k.0, &k.1))
            }).collect();
        let (runs, quiet) = self.wm().quiesce();
        let t1 = now_s();
        self.last_pump = (t0, t1);
        self.r.count("tasks_pumped", runs.len() as u64);
        if !quiet { self.r.count("pump_not_quiet", 1); }
        self.step(json!({"op": "pump", "tasks": runs.iter()
            .map(|r| format!("{}={}", r.name(), comp(&r.completion)))
            .collect::<Vec<_>>(), "tag": tag}));
        for run in &runs {
            if let Some(f) = run.fatal() {
                self.r.inconclusive(format!(
                    "task {} ended fatally: {f}", run.name()
                ));
                self.stop = true;
                return
            }
        }
        self.judge_pumped(&runs, (t0, t1), before, pbefore, cbefore, tag);
    }

    fn judge_pumped(
        &mut self, runs: &[TaskRun], window: (i64, i64),
        before: BTreeMap<String, Option<RepoStatus>>,
        pbefore: BTreeMap<(String, String), Option<ParentStatus>>,
        cbefore: BTreeMap<(String, String), Option<ChildStatus>>,
        tag: &str,
    ) {
        let mut lastp: BTreeMap<(String, String), Option<bool>> = BTreeMap::new();
        let mut lastr: BTreeMap<String, Option<bool>> = BTreeMap::new();
        for run in runs {
            match &run.task {
                Task::SyncParent { ca_handle, parent, .. } => {
                    let v = match run.completion {
                        Completion::FollowUp => Some(true),
                        Completion::Reschedule => Some(false),
                        _ => None,
                    };
                    lastp.insert((ca_handle.to_string(), parent.to_string()), v);
                }
                Task::ResourceClassRemoved { ca_handle, parent, .. } => {
                    lastp.insert(
                        (ca_handle.to_string(), parent.to_string()), None
                    );
                }
                Task::UnexpectedKey { ca_handle, .. } => {
                    for p in self.parents_of(ca_handle.as_str()) {
                        lastp.insert((ca_handle.to_string(), p), None);
                    }
                }
                Task::SyncRepo { ca_handle, .. } => {
                    let v = match run.completion {
                        Completion::Done => Some(true),
                        Completion::Reschedule => Some(false),
                        _ => None,
                    };
                    lastr.insert(ca_handle.to_string(), v);
                }
                _ => {}
            }
        }
        let tag = format!("{tag}+pumped");
        for ((ca, lp), v) in lastp {
            if !self.cas.contains(&ca) { continue }
            if !self.links.contains_key(&(ca.clone(), lp.clone())) { continue }
            let Some(ok) = v else { continue };
            let s0 = pbefore.get(&(ca.clone(), lp.clone())).cloned().flatten();
            self.judge_parent(&ca, &lp, "pumped", ok, None, window, s0, None, &tag);
            let real = self.real_parent(&ca, &lp).unwrap();
            let registered = self.kids.contains_key(&(real.clone(), ca.clone()));
            if ok || !registered {
                let c0 = cbefore.get(&(real.clone(), ca.clone())).cloned()
                    .flatten();
                self.judge_child(
                    &real, &ca, "pumped", Some(ok), None, window, c0,
                    "local-child", &tag,
                );
            }
        }
        for (ca, v) in lastr {
            if ca != TA && !self.cas.contains(&ca) { continue }
            let Some(ok) = v else { self.repo_clean.remove(&ca); continue };
            let s0 = before.get(&ca).cloned().flatten();
            self.judge_repo(&ca, "pumped", ok, None, window, s0, &tag);
        }
    }

    fn restart(&mut self, tag: &str) {
        let mut names: Vec<String> = self.cas.iter().cloned().collect();
        names.push(TA.to_string());
        let before: BTreeMap<String, Option<Value>> = names.iter()
            .map(|c| (c.clone(), full_view(self.w(), c))).collect();
        let w = self.w.take().unwrap();
        let w = match catch(move || w.restart()) {
            Ok(w) => w,
            Err(p) => {
                self.r.inconclusive(format!("restart failed: {p}"));
                self.stop = true;
                // the world is gone; make a fresh throw-away one impossible
                return
            }
        };
        self.w = Some(w);
        self.log_seen = 0;
        self.r.count("restarts", 1);
        self.step(json!({"op": "restart", "tag": tag}));
        let mut out: Vec<Issue> = vec![];
        for ca in names {
            let after = full_view(self.w(), &ca);
            let b = before.get(&ca).cloned().flatten();
            if b.is_none() && after.is_none() { continue }
            self.r.eval();
            self.r.count("restart_comparisons", 1);
            let (Some(b), Some(a)) = (b, after) else {
                out.push((
                    "status-view-unreadable-after-restart".into(),
                    format!("{ca}"),
                ));
                continue
            };
            // a parent whose local name contains a slash is stored under
            // a key that cannot be read back: its own signature
            let lost_slash: Vec<String> = b["parents"].as_object()
                .map(|o| o.keys().filter(|k| {
                    k.contains('/') && a["parents"].get(k.as_str()).is_none()
                }).cloned().collect()).unwrap_or_default();
            for part in ["repo", "parents", "children", "connections", "issues"] {
                if b[part] == a[part] { continue }
                let (mut bb, mut aa) = (b[part].clone(), a[part].clone());
                if !lost_slash.is_empty() {
                    match part {
                        "parents" => {
                            for k in &lost_slash {
                                bb.as_object_mut().unwrap().remove(k);
                            }
                        }
                        "issues" => {
                            for v in [&mut bb, &mut aa] {
                                if let Some(arr) = v["parents"].as_array_mut() {
                                    arr.retain(|x| !lost_slash.iter().any(|k| {
                                        x["parent"].as_str() == Some(k)
                                    }));
                                }
                            }
                        }
                        _ => {}
                    }
                }
                if bb == aa {
                    out.push((
                        format!("status-differs-after-restart:{part}:parent-name-with-slash"),
                        format!("{ca}: entries for parent(s) {lost_slash:?} \
                            are gone after the restart ({})", diff_keys(&b[part], &a[part])),
                    ));
                } else {
                    out.push((
                        format!("status-differs-after-restart:{part}"),
                        format!("{ca}: {}; before {} after {}",
                            diff_keys(&bb, &aa), brief(&bb), brief(&aa)),
                    ));
                }
            }
            let nonempty = b["repo"]["last_exchange"] != Value::Null;
            let failing = b["issues"]["repo"] != Value::Null
                || b["issues"]["parents"].as_array()
                    .map(|a| !a.is_empty()).unwrap_or(false);
            if nonempty {
                self.case(format!(
                    "restart/equal-views/{}{}",
                    if failing { "with-failures" } else { "all-ok" },
                    if b["children"].as_object().map(|o| !o.is_empty())
                        .unwrap_or(false) { "+children" } else { "" },
                ), tag);
            }
        }
        self.report(out);
    }

    //--- operations ---------------------------------------------------------

    fn op_result(&mut self, name: &str, args: Value, res: Result<Result<(), KrillError>, String>) -> bool {
        match res {
            Ok(Ok(())) => {
                self.step(json!({"op": name, "args": args, "ok": true}));
                true
            }
            Ok(Err(e)) => {
                self.step(json!({"op": name, "args": args, "ok": false,
                    "err": e.to_string()}));
                self.r.count("ops_refused", 1);
                self.r.distinct("ops_refused", format!("{name}: {e}"));
                false
            }
            Err(p) => {
                self.r.inconclusive(format!("panic in {name}: {p}"));
                self.stop = true;
                false
            }
        }
    }

    fn add_child_and_parent(
        &mut self, ca: &str, real: &str, lp: &str, res: ResourceSet
    ) -> bool {
        let r = {
            let w = self.w();
            let res = res.clone();
            catch(|| {
                let presp = w.add_child_only(ca, real, res)?;
                w.krill.ca_manager().ca_parent_add_or_update(
                    h(ca), ParentCaReq { handle: ph(lp), response: presp },
                    &w.actor, &w.krill
                )
            })
        };
        let ok = self.op_result("add_parent",
            json!({"ca": ca, "parent": real, "local_name": lp,
                   "resources": res.to_string()}), r);
        if ok {
            self.kids.insert((real.to_string(), ca.to_string()), res);
            self.links.insert((ca.to_string(), lp.to_string()), real.to_string());
        }
        ok
    }

    fn new_ca(&mut self, ca: &str) -> bool {
        let r = { let w = self.w(); catch(|| w.init_ca_with_repo(ca)) };
        let ok = self.op_result("init_ca", json!({"ca": ca}), r);
        if ok {
            self.cas.insert(ca.to_string());
            self.pub_removed.remove(ca);
            self.repo_clean.remove(ca);
            self.recreated.remove(ca);
            self.recreated_ever.remove(ca);
        }
        ok
    }

    fn roa_delta(&mut self, ca: &str) {
        if !self.cas.contains(ca) { return }
        let pool: &[&str] = if ca == "c1" {
            &["10.1.0.0/24 => 65001", "10.1.1.0/24 => 65001",
              "10.1.2.0/24-26 => 65001", "10.1.128.0/20 => 65001",
              "10.1.0.0/16 => 65001"]
        } else {
            &["10.2.0.0/24 => 65002", "10.2.1.0/24 => 65002",
              "172.16.0.0/24 => 65102", "172.16.1.0/24-25 => 65102"]
        };
        let cur = self.roas.entry(ca.to_string()).or_default().clone();
        let mut add = vec![];
        let mut rem = vec![];
        for p in pool {
            if cur.contains(*p) {
                if self.rng.chance(1, 3) { rem.push(p.to_string()) }
            } else if self.rng.chance(1, 2) { add.push(p.to_string()) }
        }
        if add.is_empty() && rem.is_empty() {
            match pool.iter().find(|p| !cur.contains(**p)) {
                Some(p) => add.push(p.to_string()),
                None => rem.push(pool[0].to_string()),
            }
        }
        let r = {
            let w = self.w();
            let a: Vec<_> = add.iter().map(|s| roa(s)).collect();
            let d: Vec<_> = rem.iter().map(|s| {
                // payloads carry an explicit max length
                let s = if s.split(" =>").next().unwrap().contains('-') {
                    s.clone()
                } else {
                    let (pfx, asn) = s.split_once(" => ").unwrap();
                    let len = pfx.split('/').nth(1).unwrap();
                    format!("{pfx}-{len} => {asn}")
                };
                roa_payload(&s)
            }).collect();
            catch(|| w.roas_update(ca, a, d))
        };
        let ok = self.op_result("roa_delta",
            json!({"ca": ca, "add": add, "remove": rem}), r);
        if ok {
            let e = self.roas.entry(ca.to_string()).or_default();
            for a in add { e.insert(a); }
            for d in rem { e.remove(&d); }
            self.repo_clean.remove(ca);
        }
    }

    fn child_update(&mut self, parent: &str, child: &str) {
        if !self.kids.contains_key(&(parent.to_string(), child.to_string())) {
            return
        }
        let pool: Vec<ResourceSet> = match (parent, child) {
            ("p", "c1") => vec![
                rs("AS65001", "10.1.0.0/16", ""),
                rs("AS65001", "10.1.0.0/16, 10.3.0.0/16", "2001:db8:1::/48"),
                rs("AS65001, AS65003", "10.1.0.0/17", ""),
                rs("", "10.1.0.0/16, 192.168.0.0/16", ""),
            ],
            ("p", "c2") => vec![
                rs("AS65002", "10.2.0.0/16", ""),
                rs("AS65002", "10.2.0.0/15", ""),
                rs("AS65002", "10.2.0.0/24", "2001:db8:2::/48"),
            ],
            ("q", "c2") => vec![
                rs("AS65102", "172.16.0.0/16", ""),
                rs("AS65102-AS65103", "172.16.0.0/15", ""),
            ],
            _ => return,
        };
        let cur = self.kids.get(&(parent.to_string(), child.to_string()))
            .cloned().unwrap();
        let cands: Vec<&ResourceSet> = pool.iter().filter(|r| **r != cur)
            .collect();
        let new = (*self.rng.pick(&cands)).clone();
        let r = {
            let w = self.w();
            let n = new.clone();
            catch(|| w.update_child_resources(parent, child, n))
        };
        let ok = self.op_result("child_update",
            json!({"parent": parent, "child": child,
                   "resources": new.to_string()}), r);
        if ok {
            self.kids.insert((parent.to_string(), child.to_string()), new);
            self.r.count("entitlement_changes", 1);
        }
    }

    fn suspend(&mut self, parent: &str, child: &str) {
        if !self.kids.contains_key(&(parent.to_string(), child.to_string())) {
            return
        }
        let r = { let w = self.w(); catch(|| w.suspend_child(parent, child, true)) };
        self.op_result("child_suspend",
            json!({"parent": parent, "child": child}), r);
    }

    fn remove_child(&mut self, parent: &str, child: &str) {
        if !self.kids.contains_key(&(parent.to_string(), child.to_string())) {
            return
        }
        let had = child_status(self.w(), parent, child).is_some();
        let r = { let w = self.w(); catch(|| w.remove_child(parent, child)) };
        let ok = self.op_result("child_remove",
            json!({"parent": parent, "child": child}), r);
        if ok {
            self.kids.remove(&(parent.to_string(), child.to_string()));
            self.r.count("removals", 1);
            self.r.eval();
            if had { self.r.nontrivial("removal/child/had-entry".to_string()); }
            if let Some(c) = child_status(self.w(), parent, child) {
                self.viol("child-status-survives-child-remove", format!(
                    "{child}@{parent}: {}", serde_json::to_value(&c).unwrap()
                ));
            }
        }
    }

    fn readd_child(&mut self, parent: &str, child: &str, lp: &str) {
        if self.kids.contains_key(&(parent.to_string(), child.to_string())) {
            return
        }
        if !self.cas.contains(child)
            || (parent != TA && !self.cas.contains(parent)) { return }
        let res = match (parent, child) {
            ("p", "c1") => rs("AS65001", "10.1.0.0/16", ""),
            ("p", "c2") => rs("AS65002", "10.2.0.0/16", ""),
            _ => rs("AS65102", "172.16.0.0/16", ""),
        };
        self.add_child_and_parent(child, parent, lp, res);
    }

    fn remove_publisher(&mut self, ca: &str) {
        if self.pub_removed.contains(ca) || !self.cas.contains(ca) { return }
        let r = {
            let w = self.w();
            catch(|| w.krill.repo_manager().remove_publisher(
                h(ca).convert(), &w.actor, &w.krill
            ))
        };
        if self.op_result("remove_publisher", json!({"ca": ca}), r) {
            self.pub_removed.insert(ca.to_string());
            self.repo_clean.remove(ca);
        }
    }

    fn recreate_publisher(&mut self, ca: &str) {
        if !self.pub_removed.contains(ca) || !self.cas.contains(ca) { return }
        let r = {
            let w = self.w();
            catch(|| {
                let req = w.krill.ca_manager().get_ca(&h(ca))?
                    .publisher_request();
                w.krill.repo_manager().create_publisher(req, &w.actor)
            })
        };
        if self.op_result("create_publisher", json!({"ca": ca}), r) {
            self.pub_removed.remove(ca);
            self.recreated.insert(ca.to_string());
            self.recreated_ever.insert(ca.to_string());
        }
    }

    fn roll(&mut self, ca: &str) {
        if !self.cas.contains(ca) { return }
        if self.rolling.contains(ca) {
            let r = { let w = self.w(); catch(|| w.keyroll_activate(ca)) };
            if self.op_result("roll_activate", json!({"ca": ca}), r) {
                self.rolling.remove(ca);
                self.repo_clean.remove(ca);
            }
        } else {
            let r = { let w = self.w(); catch(|| w.keyroll_init(ca)) };
            if self.op_result("roll_init", json!({"ca": ca}), r) {
                self.rolling.insert(ca.to_string());
                self.repo_clean.remove(ca);
            }
        }
    }

    fn remove_parent(&mut self, ca: &str, lp: &str) {
        if self.real_parent(ca, lp).is_none() || !self.cas.contains(ca) {
            return
        }
        let had = parent_status(self.w(), ca, lp).is_some();
        let failing = parent_status(self.w(), ca, lp)
            .and_then(|s| s.opt_failure()).is_some();
        let r = {
            let w = self.w();
            catch(|| w.krill.ca_manager().ca_parent_remove(
                h(ca), ph(lp), &w.actor, &w.slow
            ))
        };
        let ok = self.op_result("remove_parent",
            json!({"ca": ca, "parent": lp}), r);
        if ok {
            self.links.remove(&(ca.to_string(), lp.to_string()));
            self.repo_clean.remove(ca);
            self.r.count("removals", 1);
            self.r.eval();
            if had {
                self.r.nontrivial(format!(
                    "removal/parent/{}", if failing { "was-failing" }
                    else { "was-ok" }
                ));
            }
            if let Some(s) = parent_status(self.w(), ca, lp) {
                self.viol("parent-status-survives-remove-parent", format!(
                    "{ca}: entry for {lp}: {}", brief(&serde_json::to_value(&s).unwrap())
                ));
            }
            if let Some((_, pi)) = issues_view(self.w(), ca) {
                if pi.contains_key(lp) {
                    self.viol("issues-view-survives-remove-parent",
                        format!("{ca}: issue for removed parent {lp}"));
                }
            }
        }
    }

    fn readd_parent(&mut self, ca: &str, real: &str, lp: &str) {
        if self.real_parent(ca, lp).is_some() || !self.cas.contains(ca)
            || !self.cas.contains(real) { return }
        if !self.kids.contains_key(&(real.to_string(), ca.to_string())) {
            self.readd_child(real, ca, lp);
            return
        }
        let r = {
            let w = self.w();
            catch(|| {
                let resp = w.krill.ca_manager().ca_parent_response(
                    &h(real), ch(ca), w.krill.service_uri()
                )?;
                w.krill.ca_manager().ca_parent_add_or_update(
                    h(ca), ParentCaReq { handle: ph(lp), response: resp },
                    &w.actor, &w.krill
                )
            })
        };
        if self.op_result("readd_parent",
            json!({"ca": ca, "parent": real, "local_name": lp}), r)
        {
            self.links.insert((ca.to_string(), lp.to_string()), real.to_string());
        }
    }

    /// Deletes a CA, checks that nothing of its status survives (also for a
    /// CA created again under the same name) and brings it back.
    fn delete_and_recreate(&mut self, ca: &str, with_restart: bool) {
        if !self.cas.contains(ca) { return }
        let had = full_view(self.w(), ca);
        let r = {
            let w = self.w();
            catch(|| w.krill.ca_manager().delete_ca(&h(ca), &w.actor, &w.slow))
        };
        if !self.op_result("delete_ca", json!({"ca": ca}), r) { return }
        self.cas.remove(ca);
        self.rolling.remove(ca);
        self.roas.remove(ca);
        self.repo_clean.remove(ca);
        let lps = self.parents_of(ca);
        for lp in &lps { self.links.remove(&(ca.to_string(), lp.clone())); }
        self.r.count("removals", 1);
        self.r.eval();
        if self.w().krill.ca_manager().get_ca_status(&h(ca)).is_ok() {
            self.viol("ca-status-survives-delete-ca",
                format!("{ca}: status still readable after deletion"));
        }
        // left-over tasks of the deleted CA must not bring entries back
        self.pump("+after-delete-ca");
        if self.stop { return }
        if with_restart { self.restart("+after-delete-ca"); }
        if self.stop { return }
        // same name again
        let parents: Vec<String> = self.kids.keys().filter(|k| k.1 == ca)
            .map(|k| k.0.clone()).collect();
        for p in parents { self.remove_child(&p, ca); }
        let r = {
            let w = self.w();
            catch(|| w.krill.repo_manager().remove_publisher(
                h(ca).convert(), &w.actor, &w.krill
            ))
        };
        self.op_result("remove_publisher", json!({"ca": ca}), r);
        if !self.new_ca(ca) { return }
        self.r.eval();
        let fresh = full_view(self.w(), ca);
        let empty = fresh.as_ref().map(|v| {
            v["repo"]["last_exchange"] == Value::Null
                && v["repo"]["published"].as_array()
                    .map(|a| a.is_empty()).unwrap_or(true)
                && v["parents"].as_object().map(|o| o.is_empty()).unwrap_or(true)
                && v["children"].as_object().map(|o| o.is_empty()).unwrap_or(true)
        }).unwrap_or(false);
        let had_something = had.as_ref()
            .map(|v| v["repo"]["last_exchange"] != Value::Null).unwrap_or(false);
        if had_something {
            self.r.nontrivial(format!(
                "removal/ca/recreated-same-name{}",
                if with_restart { "+restart" } else { "" }
            ));
        }
        if !empty {
            self.viol("ca-status-survives-delete-ca", format!(
                "{ca}: a CA created again under the name of a deleted one \
                 shows {}", brief(fresh.as_ref().unwrap_or(&Value::Null))
            ));
        }
        self.readd_child("p", ca, "p");
    }

    fn delete_parent_ca(&mut self, real: &str) {
        if !self.cas.contains(real) { return }
        let r = {
            let w = self.w();
            catch(|| w.krill.ca_manager().delete_ca(&h(real), &w.actor, &w.slow))
        };
        if !self.op_result("delete_ca", json!({"ca": real}), r) { return }
        self.cas.remove(real);
        self.rolling.remove(real);
        let lps = self.parents_of(real);
        for lp in &lps { self.links.remove(&(real.to_string(), lp.clone())); }
        let kids: Vec<_> = self.kids.keys().filter(|k| k.0 == real).cloned()
            .collect();
        for k in kids { self.kids.remove(&k); }
        self.r.count("removals", 1);
    }
}

/// Keeps the qualifiers of a tag that say something about the case (not
/// about where in the history it happened).
fn sem(tag: &str) -> String {
    const KEEP: &[&str] = &[
        "suspended-child", "rolling", "slash-name", "entitlement-changed",
        "child-added-again", "parent-added-again", "after-restart",
        "after-recreate", "after-refused-request", "roll-activated",
        "list", "unsupported", "wrong-key", "after-roa-delta",
        "child-removed", "publisher-removed", "publisher-recreated",
        "parent-removed", "parent-deleted", "second-parent-failing",
        "child-failing", "after-delete-ca",
    ];
    let mut parts: Vec<&str> = tag.split('+')
        .filter(|p| KEEP.contains(p)).collect();
    parts.dedup();
    parts.iter().map(|p| format!("+{p}")).collect()
}

fn comp(c: &Completion) -> &'static str {
    match c {
        Completion::Done => "done", Completion::FollowUp => "followup",
        Completion::Reschedule => "reschedule",
        Completion::WouldExit(_) => "would-exit",
        Completion::Panicked(_) => "panicked",
    }
}

fn brief(v: &Value) -> String {
    let s = v.to_string();
    if s.len() > 600 {
        let mut end = 600;
        while !s.is_char_boundary(end) { end -= 1 }
        format!("{}...({} bytes)", &s[..end], s.len())
    } else { s }
}

/// Which keys of two JSON objects differ.
fn diff_keys(b: &Value, a: &Value) -> String {
    match (b.as_object(), a.as_object()) {
        (Some(bo), Some(ao)) => {
            let only_b: Vec<&String> = bo.keys()
                .filter(|k| !ao.contains_key(*k)).collect();
            let only_a: Vec<&String> = ao.keys()
                .filter(|k| !bo.contains_key(*k)).collect();
            let changed: Vec<&String> = bo.iter()
                .filter(|(k, v)| ao.get(*k).map(|x| x != *v).unwrap_or(false))
                .map(|(k, _)| k).collect();
            format!("only before {only_b:?}, only after {only_a:?}, \
                changed {changed:?}")
        }
        _ => "differs".to_string(),
    }
}

fn summarize_classes(c: &[Value]) -> String {
    let v: Vec<String> = c.iter().map(|c| format!(
        "{}:{}:{} certs", c["class_name"], c["resource_set"],
        c["issued_certs"].as_array().map(|a| a.len()).unwrap_or(0)
    )).collect();
    format!("[{}]", v.join("; "))
}

//------------ history driver ------------------------------------------------

fn run_history(
    r: &mut Report, args: &Args, idx: u64, seed: u64, scenario: u64
) {
    let mut rng = Rng::new(seed);
    let slash = rng.chance(1, 3);
    let qname = if slash { "up/q" } else { "q" }.to_string();
    let n_steps = if args.thorough() { rng.range(40, 70) }
        else { rng.range(16, 26) } as usize;
    let dir = args.work.join(format!("h{idx}"));
    let desc = json!({"hist": idx, "seed": seed, "scenario": scenario,
        "second_parent_name": qname, "steps": n_steps});
    let w = match catch(|| World::create(WorldCfg::new(&dir))) {
        Ok(w) => w,
        Err(p) => { r.inconclusive(format!("world creation: {p}")); return }
    };
    let mut hst = Hist {
        r, rng, w: Some(w), log: vec![], desc,
        cas: BTreeSet::new(), links: BTreeMap::new(), kids: BTreeMap::new(),
        held: BTreeMap::new(), pub_removed: BTreeSet::new(),
        repo_clean: BTreeSet::new(), recreated: BTreeSet::new(),
        recreated_ever: BTreeSet::new(),
        roas: BTreeMap::new(), rolling: BTreeSet::new(),
        qname: qname.clone(), log_seen: 0, stop: false,
        reported: BTreeSet::new(), last_pump: (0, 0),
    };
    hst.r.count("histories", 1);
    hst.r.distinct("configs", format!("second-parent-name={qname}"));
    let p_res = rs("AS65000-AS65010", "10.0.0.0/8", "2001:db8::/32");
    let q_res = rs("AS65100-AS65110", "172.16.0.0/12", "");
    hst.held.insert(TA.into(), rs("AS0-AS4294967295", "0.0.0.0/0", "::/0"));
    hst.held.insert("p".into(), p_res.clone());
    hst.held.insert("q".into(), q_res.clone());

    // setup: every exchange of the setup is an exchange too
    let setup_ok = (|| {
        if !hst.new_ca("p") { return false }
        if !hst.add_child_and_parent("p", TA, TA, p_res.clone()) { return false }
        hst.pump("+setup"); if hst.stop { return false }
        if !hst.new_ca("q") { return false }
        if !hst.add_child_and_parent("q", TA, TA, q_res.clone()) { return false }
        hst.pump("+setup"); if hst.stop { return false }
        if !hst.new_ca("c1") || !hst.new_ca("c2") { return false }
        if !hst.add_child_and_parent("c1", "p", "p", rs("AS65001", "10.1.0.0/16", "")) { return false }
        if !hst.add_child_and_parent("c2", "p", "p", rs("AS65002", "10.2.0.0/16", "")) { return false }
        // first contact made by the harness itself
        hst.sync_parent("c1", "p", "+first-contact");
        hst.sync_parent("c1", "p", "+first-contact");
        hst.pump("+setup"); if hst.stop { return false }
        let qn = hst.qname.clone();
        if !hst.add_child_and_parent("c2", "q", &qn, rs("AS65102", "172.16.0.0/16", "")) {
            return false
        }
        hst.sync_parent("c2", &qn, "+first-contact");
        hst.pump("+setup"); if hst.stop { return false }
        hst.roa_delta("c1");
        hst.sync_repo("c1", "+first-roas");
        hst.pump("+setup");
        !hst.stop
    })();
    if !setup_ok {
        if !hst.stop { hst.r.inconclusive(format!("history {idx}: setup refused")); }
        cleanup(hst.w.take(), &dir);
        return
    }
    hst.held.insert("p".into(), held_by(hst.w(), "p").unwrap_or(p_res));
    hst.held.insert("q".into(), held_by(hst.w(), "q").unwrap_or(q_res));
    hst.consistency("setup");
    // every CA talks to every parent and the repository once
    settle(&mut hst, "+settle");

    // scripted part: one of six scenarios first, then seeded steps
    hst.step(json!({"scenario": scenario}));
    scripted(&mut hst, scenario);
    let mut deleted_once = false;
    let mut n = 0;
    while n < n_steps && !hst.stop && hst.r.within_budget() {
        n += 1;
        random_step(&mut hst, &mut deleted_once);
        if hst.stop { break }
        hst.consistency("step");
    }
    if !hst.stop {
        // final: everything settles, restart, compare
        for ca in ["c1", "c2", "p"] {
            hst.recreate_publisher(ca);
        }
        hst.pump("+final");
        if !hst.stop { settle(&mut hst, "+final"); }
        if !hst.stop { hst.restart("+final"); }
        if !hst.stop { hst.consistency("final"); }
        if !hst.stop && hst.rng.chance(1, 2) {
            // the parent CA disappears: its children are refused
            hst.delete_parent_ca("p");
            hst.sync_parent("c1", "p", "");
            hst.sync_parent("c2", "p", "");
            hst.pump("+parent-deleted");
            if !hst.stop { hst.restart("+parent-deleted"); }
            if !hst.stop { hst.consistency("parent-deleted"); }
        }
    }
    cleanup(hst.w.take(), &dir);
}

fn held_by(w: &World, ca: &str) -> Option<ResourceSet> {
    w.krill.ca_manager().get_ca(&h(ca)).ok().map(|c| c.as_ca_info().resources)
}

fn cleanup(w: Option<World>, dir: &std::path::Path) {
    drop(w);
    let _ = std::fs::remove_dir_all(dir);
}

/// Every CA talks to each parent (twice: entitlements, then requests) and
/// to the repository, explicitly.
fn settle(hst: &mut Hist, tag: &str) {
    let links: Vec<(String, String)> = hst.links.keys().cloned().collect();
    for (ca, lp) in &links {
        if hst.stop { return }
        let real = hst.real_parent(ca, lp).unwrap_or_default();
        if real != TA {
            if let Some(hold) = held_by(hst.w(), &real) {
                hst.held.insert(real.clone(), hold);
            }
        }
        hst.sync_parent(ca, lp, tag);
        if hst.stop { return }
        hst.sync_parent(ca, lp, tag);
    }
    hst.pump(tag);
    let mut names: Vec<String> = hst.cas.iter().cloned().collect();
    names.push(TA.to_string());
    for ca in names {
        if hst.stop { return }
        hst.sync_repo(&ca, tag);
    }
    hst.consistency("settled");
}

fn scripted(hst: &mut Hist, scenario: u64) {
    let qn = hst.qname.clone();
    match scenario {
        // child removed at the parent, calls in, is added again
        0 => {
            hst.remove_child("p", "c1");
            hst.sync_parent("c1", "p", "");
            hst.child_request("p", "c1", "list");
            hst.consistency("child-removed");
            hst.pump("+child-removed");
            if hst.stop { return }
            hst.restart("+child-removed");
            if hst.stop { return }
            hst.consistency("child-removed");
            hst.sync_parent("c1", "p", "+after-restart");
            hst.readd_child("p", "c1", "p");
            hst.sync_parent("c1", "p", "+child-added-again");
            hst.sync_parent("c1", "p", "+child-added-again");
            hst.pump("+child-added-again");
        }
        // publisher removed at the server, repo sync refused, re-created
        1 => {
            hst.roa_delta("c1");
            hst.sync_repo("c1", "");
            hst.remove_publisher("c1");
            hst.sync_repo("c1", "");
            hst.roa_delta("c1");
            hst.pump("+publisher-removed");
            if hst.stop { return }
            hst.sync_repo("c1", "");
            hst.restart("+publisher-removed");
            if hst.stop { return }
            hst.recreate_publisher("c1");
            hst.sync_repo("c1", "");
            hst.consistency("publisher-recreated");
            hst.roa_delta("c1");
            hst.sync_repo("c1", "+after-recreate");
            hst.restart("+publisher-recreated");
        }
        // entitlement changes, suspended child calling in
        2 => {
            hst.child_update("p", "c1");
            hst.sync_parent("c1", "p", "+entitlement-changed");
            hst.sync_parent("c1", "p", "+entitlement-changed");
            hst.pump("+entitlement-changed");
            if hst.stop { return }
            hst.suspend("p", "c1");
            hst.pump("+suspended");
            if hst.stop { return }
            hst.sync_parent("c1", "p", "");
            hst.sync_parent("c1", "p", "");
            hst.suspend("p", "c2");
            hst.child_request("p", "c2", "list");
            hst.child_update("q", "c2");
            hst.sync_parent("c2", &qn, "+entitlement-changed");
            hst.sync_parent("p", TA, "");
            hst.pump("+entitlement-changed");
            if hst.stop { return }
            settle(hst, "+entitlement-changed");
        }
        // key rolls with synchronisations in between
        3 => {
            hst.roll("c1");
            hst.sync_parent("c1", "p", "");
            hst.pump("+roll-init");
            if hst.stop { return }
            hst.sync_repo("c1", "");
            hst.restart("+rolling");
            if hst.stop { return }
            hst.roll("c1");
            hst.sync_repo("c1", "+roll-activated");
            hst.sync_parent("c1", "p", "+roll-activated");
            hst.pump("+roll-activated");
            if hst.stop { return }
            hst.sync_parent("c1", "p", "+roll-activated");
            hst.roll("p");
            hst.pump("+roll-init");
            if hst.stop { return }
            hst.sync_repo("p", "");
            hst.roll("p");
            hst.pump("+roll-activated");
            if hst.stop { return }
            settle(hst, "+roll-activated");
        }
        // one of two parents removed (also while failing), CA deleted
        4 => {
            hst.remove_child("q", "c2");
            hst.sync_parent("c2", &qn, "");
            hst.restart("+second-parent-failing");
            if hst.stop { return }
            hst.remove_parent("c2", &qn);
            hst.consistency("parent-removed");
            hst.pump("+parent-removed");
            if hst.stop { return }
            hst.consistency("parent-removed");
            hst.restart("+parent-removed");
            if hst.stop { return }
            hst.consistency("parent-removed");
            hst.readd_parent("c2", "q", &qn);
            hst.sync_parent("c2", &qn, "+parent-added-again");
            hst.sync_parent("c2", &qn, "+parent-added-again");
            hst.pump("+parent-added-again");
            if hst.stop { return }
            hst.delete_and_recreate("c2", true);
        }
        // requests played in the child's name
        _ => {
            hst.child_request("p", "c1", "list");
            hst.child_request("p", "c1", "unsupported");
            hst.restart("+child-failing");
            if hst.stop { return }
            hst.child_request("p", "c1", "wrong-key");
            hst.sync_parent("c1", "p", "+after-refused-request");
            hst.child_request("p", "c2", "unsupported");
            hst.child_request("p", "c2", "list");
            hst.remove_parent("c2", "p");
            hst.pump("+parent-removed");
            if hst.stop { return }
            hst.consistency("parent-removed");
            hst.readd_parent("c2", "p", "p");
            hst.sync_parent("c2", "p", "+parent-added-again");
            hst.delete_and_recreate("c2", false);
        }
    }
    if !hst.stop { hst.consistency("scripted"); }
}

fn random_step(hst: &mut Hist, deleted_once: &mut bool) {
    let qn = hst.qname.clone();
    let weights = [
        14, // 0 explicit parent sync
        12, // 1 explicit repo sync
        10, // 2 ROA delta
        6,  // 3 entitlement change + sync
        4,  // 4 suspend + child calls in
        5,  // 5 remove child / add again
        7,  // 6 remove publisher / re-create
        5,  // 7 key roll step
        4,  // 8 remove parent / add again
        2,  // 9 delete CA and create again
        7,  // 10 restart
        10, // 11 pump
        6,  // 12 played child request
    ];
    let links: Vec<(String, String)> = hst.links.keys().cloned().collect();
    match hst.rng.weighted(&weights) {
        0 => {
            if links.is_empty() { return }
            let (ca, lp) = hst.rng.pick(&links).clone();
            hst.sync_parent(&ca, &lp, "");
        }
        1 => {
            let mut names: Vec<String> = hst.cas.iter().cloned().collect();
            names.push(TA.to_string());
            let ca = hst.rng.pick(&names).clone();
            hst.sync_repo(&ca, "");
        }
        2 => {
            let ca = if hst.rng.chance(2, 3) { "c1" } else { "c2" };
            hst.roa_delta(ca);
            if hst.rng.chance(1, 2) { hst.sync_repo(ca, "+after-roa-delta"); }
        }
        3 => {
            let (p, c, lp) = match hst.rng.below(3) {
                0 => ("p", "c1", "p".to_string()),
                1 => ("p", "c2", "p".to_string()),
                _ => ("q", "c2", qn.clone()),
            };
            hst.child_update(p, c);
            hst.sync_parent(c, &lp, "+entitlement-changed");
            if hst.rng.chance(1, 2) {
                hst.sync_parent(c, &lp, "+entitlement-changed");
            }
        }
        4 => {
            let c = if hst.rng.chance(1, 2) { "c1" } else { "c2" };
            hst.suspend("p", c);
            if hst.rng.chance(1, 3) { hst.pump("+suspended"); }
            if hst.stop { return }
            if hst.rng.chance(1, 3) {
                hst.child_request("p", c, "list");
            } else {
                hst.sync_parent(c, "p", "");
            }
        }
        5 => {
            let (p, c, lp) = match hst.rng.below(3) {
                0 => ("p", "c1", "p".to_string()),
                1 => ("p", "c2", "p".to_string()),
                _ => ("q", "c2", qn.clone()),
            };
            if hst.kids.contains_key(&(p.to_string(), c.to_string())) {
                hst.remove_child(p, c);
                hst.sync_parent(c, &lp, "");
            } else if hst.real_parent(c, &lp).is_some() {
                hst.readd_child(p, c, &lp);
                hst.sync_parent(c, &lp, "+child-added-again");
            }
        }
        6 => {
            let ca = *hst.rng.pick(&["c1", "c1", "c2", "p"]);
            if hst.pub_removed.contains(ca) {
                hst.recreate_publisher(ca);
                if hst.rng.chance(2, 3) { hst.sync_repo(ca, ""); }
            } else {
                hst.remove_publisher(ca);
                if hst.rng.chance(2, 3) { hst.sync_repo(ca, ""); }
            }
        }
        7 => {
            let ca = *hst.rng.pick(&["c1", "c2", "p"]);
            hst.roll(ca);
            if hst.rng.chance(1, 2) { hst.pump("+roll"); }
        }
        8 => {
            let lp = if hst.rng.chance(1, 2) { "p".to_string() } else { qn.clone() };
            let real = if lp == "p" { "p" } else { "q" };
            if hst.real_parent("c2", &lp).is_some() {
                if hst.parents_of("c2").len() >= 2 {
                    hst.remove_parent("c2", &lp);
                    if hst.rng.chance(1, 2) { hst.pump("+parent-removed"); }
                }
            } else {
                hst.readd_parent("c2", real, &lp);
                hst.sync_parent("c2", &lp, "+parent-added-again");
            }
        }
        9 => {
            if *deleted_once { return }
            *deleted_once = true;
            let with_restart = hst.rng.chance(1, 2);
            hst.delete_and_recreate("c2", with_restart);
        }
        10 => hst.restart(""),
        11 => hst.pump(""),
        _ => {
            let c = if hst.rng.chance(1, 2) { "c1" } else { "c2" };
            let kind = *hst.rng.pick(&["list", "unsupported", "unsupported",
                                       "wrong-key"]);
            hst.child_request("p", c, kind);
        }
    }
}

//============ a remote parent and a remote publication server ================

/// CA x of this instance has its parent rp in a SECOND krill instance and
/// (after a move) its publication server there too; both are reached through
/// the in-process transport, which can make the server unreachable or lose
/// one reply. After EVERY synchronisation attempt the harness knows the
/// outcome (return value of the call, or the task's completion) and compares:
/// failure shown exactly when the latest attempt failed, with an error;
/// success shown together with the entitlement the parent holds for x at that
/// moment; the published list = what the second server holds for x after the
/// last successful synchronisation; the remote parent's view of its child x
/// (kept by the OTHER instance) = outcome of x's latest request; all of it
/// again after a restart of this instance.
fn remote_case(r: &mut Report, args: &Args, idx: u64, seed: u64) {
    use kvh::hist::{self, Op};
    let mut rng = Rng::new(seed ^ 0x19e0);
    let dir = args.work.join(format!("remote{idx}"));
    let _ = std::fs::remove_dir_all(&dir);
    let mut w = World::create(WorldCfg::new(&dir));
    let mut log: Vec<Value> = vec![];
    let setup = [
        Op::AddCa { ca: "top".into(), parent: "ta".into(),
            asn: "AS65000-AS65010".into(), v4: "10.0.0.0/8".into(), v6: "".into() },
        Op::Quiesce,
        Op::RemoteChain { via: "top".into(), remote: "rp".into(), ca: "x".into(),
            asn: "AS65007-AS65008".into(), v4: "10.7.0.0/16, 10.8.0.0/16".into(),
            v6: "".into() },
        Op::Quiesce, Op::SyncAll, Op::Quiesce,
        Op::RoaDelta { ca: "x".into(), add: vec!["10.7.0.0/24 => 65007".into()],
            remove: vec![] },
        Op::Quiesce,
    ];
    for op in &setup {
        let out = hist::apply(&mut w, op);
        if !out.is_ok() {
            r.inconclusive(format!("remote case set-up: {} {out:?}", op.kind()));
            return
        }
    }
    let mut migrated = false;
    let mut entitlement = ("AS65007-AS65008".to_string(),
                           "10.7.0.0/16, 10.8.0.0/16".to_string());
    let mut roa_n = 1u32;
    let steps = if args.thorough() { 40 } else { 14 };
    let violation = |r: &mut Report, sig: &str, detail: String, log: &Vec<Value>| {
        r.violation(sig, &detail, json!({"desc": {"part": "remote",
            "hist": idx, "seed": seed}, "log": log}));
    };
    for step in 0..steps {
        // --- something happens
        let fault = rng.weighted(&[50, 25, 25]); // none, unreachable, reply lost
        let what = rng.weighted(&[25, 20, 15, 28, 12]);
        let mut desc = json!({"step": step});
        match what {
            0 => {
                // the remote parent changes x's entitlement
                entitlement = if entitlement.1.contains("10.8") {
                    ("AS65007".to_string(), "10.7.0.0/16".to_string())
                } else {
                    ("AS65007-AS65008".to_string(),
                     "10.7.0.0/16, 10.8.0.0/16".to_string())
                };
                let out = hist::apply(&mut w, &Op::RemoteChildUpdate {
                    parent: "rp".into(), child: "x".into(),
                    asn: entitlement.0.clone(), v4: entitlement.1.clone(),
                    v6: "".into() });
                desc["op"] = json!(format!("entitlement {entitlement:?}: {out:?}"));
            }
            1 => {
                roa_n += 1;
                let out = hist::apply(&mut w, &Op::RoaDelta { ca: "x".into(),
                    add: vec![format!("10.7.{roa_n}.0/24 => 65007")], remove: vec![] });
                desc["op"] = json!(format!("roa {roa_n}: {out:?}"));
            }
            2 if !migrated => {
                let out = hist::apply(&mut w, &Op::RepoMigrate { ca: "x".into() });
                let _ = w.quiesce();
                let _ = hist::apply(&mut w, &Op::SyncAll);
                let _ = w.quiesce();
                let out2 = hist::apply(&mut w, &Op::RollActivate { ca: "x".into() });
                let _ = w.quiesce();
                let _ = hist::apply(&mut w, &Op::SyncAll);
                let _ = w.quiesce();
                migrated = out.is_ok() && out2.is_ok();
                desc["op"] = json!(format!("migrate {out:?} {out2:?}"));
            }
            3 => {
                // start a roll, or activate the staged key: the following
                // synchronisation then has a revocation request (and nothing
                // else) to deliver
                let staged = kvh::oracle::key_roles(&w, "x").classes.values()
                    .any(|c| c.1 == "roll_new");
                let op = if staged { Op::RollActivate { ca: "x".into() } }
                         else { Op::RollInit { ca: "x".into() } };
                let out = hist::apply(&mut w, &op);
                desc["op"] = json!(format!("{} {out:?}", op.kind()));
            }
            _ => { desc["op"] = json!("nothing"); }
        }
        match fault {
            1 => { let _ = hist::apply(&mut w, &Op::RemoteDown { down: true }); }
            2 => { let _ = hist::apply(&mut w, &Op::LoseReply { nth: 0 }); }
            _ => {}
        }
        desc["fault"] = json!((["none", "unreachable", "reply-lost"][fault]));
        // --- one explicit parent synchronisation, outcome known
        // (a synchronisation that has requests to deliver does that and
        // does not ask for the entitlements; the list reply is then not
        // "the last returned")
        let pending_before = w.krill.ca_manager().get_ca(&h("x"))
            .map(|c| c.has_pending_requests(&ph("rp"))).unwrap_or(true);
        let res = {
            let k = w.krill.clone();
            catch(|| k.ca_manager().ca_sync_parent(
                &h("x"), 0, &ph("rp"), &w.actor, &w.slow))
        };
        let ok = match res {
            Err(p) => {
                violation(r, "panic-in-remote-parent-synchronisation", p, &log);
                return
            }
            Ok(Ok(_)) => true,
            Ok(Err(e)) => { desc["err"] = json!(e.to_string()); false }
        };
        desc["sync_parent_ok"] = json!(ok);
        log.push(desc.clone());
        r.eval();
        r.nontrivial(format!("remote-parent|{}|{}|ok={ok}",
            desc["fault"].as_str().unwrap_or(""), what));
        let st = parent_status(&w, "x", "rp");
        let shown_ok = st.as_ref().and_then(|s| s.last_exchange.as_ref())
            .map(|e| e.result.was_success());
        if shown_ok != Some(ok) {
            violation(r, if ok { "remote-parent:status-shows-failure-after-success" }
                         else { "remote-parent:status-shows-success-after-failure" },
                format!("x's synchronisation with rp {}; the status view shows {:?}",
                    if ok { "succeeded" } else { "failed" },
                    st.as_ref().and_then(|s| s.last_exchange.as_ref())
                        .map(|e| serde_json::to_value(&e.result).unwrap())), &log);
            return
        }
        if !ok {
            let named = st.as_ref().and_then(|s| s.last_exchange.as_ref())
                .and_then(|e| e.opt_failure()).map(|e| !e.msg.is_empty())
                .unwrap_or(false);
            r.eval();
            if !named {
                violation(r, "remote-parent:failure-without-error",
                    "the failed exchange is shown without an error".into(), &log);
                return
            }
        } else if let (Some(s), false) = (&st, pending_before) {
            // the entitlement the parent holds for x right now
            let want = kvh::world::rs(&entitlement.0, &entitlement.1, "");
            r.eval();
            if s.all_resources != want {
                violation(r, "remote-parent:entitlements-not-the-last-returned",
                    format!("rp entitles x to {want}; x's status shows {}",
                            s.all_resources), &log);
                return
            }
        }
        // what the REMOTE parent shows for its child x: the outcome of x's
        // most recent request that reached it
        if fault != 1 {
            if let Some(rw) = &w.remote {
                let cs = rw.krill.ca_manager().get_ca_status(&h("rp")).ok()
                    .and_then(|s| s.children().get(&ch("x")).cloned());
                let shown = cs.as_ref().and_then(|c| c.last_exchange.as_ref())
                    .map(|e| e.result.was_success());
                r.eval();
                // a lost reply was a request the parent answered
                if shown != Some(true) {
                    violation(r, "remote-parent:child-status-not-last-request",
                        format!("rp served x's request; rp's status for x \
                                 shows success={shown:?}"), &log);
                    return
                }
            }
        }
        let _ = hist::apply(&mut w, &Op::RemoteDown { down: false });
        // --- one explicit repository synchronisation (remote when migrated)
        let fault2 = if migrated { rng.weighted(&[50, 25, 25]) } else { 0 };
        match fault2 {
            1 => { let _ = hist::apply(&mut w, &Op::RemoteDown { down: true }); }
            2 => { let _ = hist::apply(&mut w, &Op::LoseReply { nth: 0 }); }
            _ => {}
        }
        let res = {
            let k = w.krill.clone();
            catch(|| k.ca_manager().cas_repo_sync_single(&h("x"), 0, &w.slow))
        };
        let rok = match res {
            Err(p) => {
                violation(r, "panic-in-remote-repository-synchronisation", p, &log);
                return
            }
            Ok(Ok(_)) => true,
            Ok(Err(e)) => {
                log.push(json!({"step": step, "repo_err": e.to_string()}));
                false
            }
        };
        log.push(json!({"step": step, "repo_sync_ok": rok, "migrated": migrated,
                        "fault": (["none", "unreachable", "reply-lost"][fault2])}));
        let _ = hist::apply(&mut w, &Op::RemoteDown { down: false });
        r.eval();
        r.nontrivial(format!("remote-repo|migrated={migrated}|{fault2}|ok={rok}"));
        let rs_ = repo_status(&w, "x");
        let shown = rs_.as_ref().and_then(|s| s.last_exchange.as_ref())
            .map(|e| e.result.was_success());
        if shown != Some(rok) {
            violation(r, if rok { "remote-repo:status-shows-failure-after-success" }
                         else { "remote-repo:status-shows-success-after-failure" },
                format!("x's repository synchronisation {}; the status shows \
                         success={shown:?}", if rok { "succeeded" } else { "failed" }),
                &log);
            return
        }
        if rok {
            // the published list = what the server holds for x
            let files = w.publisher_files();
            let base = if migrated { format!("rsync://{}/repo/x/", kvh::remote::HOST2) }
                       else { format!("rsync://{}/repo/x/", kvh::world::HOST) };
            let held: BTreeSet<String> = files.keys()
                .filter(|u| u.starts_with(&base)).cloned().collect();
            let listed: BTreeSet<String> = rs_.as_ref().map(|s| {
                s.published.iter().map(|f| f.uri.to_string())
                    .filter(|u| u.starts_with(&base)).collect()
            }).unwrap_or_default();
            r.eval();
            if held != listed {
                let a: Vec<&String> = held.difference(&listed).take(3).collect();
                let b: Vec<&String> = listed.difference(&held).take(3).collect();
                violation(r, "remote-repo:published-list-differs-from-server",
                    format!("after a successful synchronisation: held but not \
                             listed {a:?}; listed but not held {b:?}"), &log);
                return
            }
        }
        // --- restart of this instance every few steps: unchanged reports
        if step % 5 == 4 {
            let before = (
                serde_json::to_value(parent_status(&w, "x", "rp")).unwrap(),
                serde_json::to_value(repo_status(&w, "x")).unwrap(),
            );
            w = w.restart();
            let after = (
                serde_json::to_value(parent_status(&w, "x", "rp")).unwrap(),
                serde_json::to_value(repo_status(&w, "x")).unwrap(),
            );
            r.eval();
            r.count("remote_restart_comparisons", 1);
            if before != after {
                violation(r, "remote:status-differs-after-restart",
                    format!("before {} after {}",
                        before.0.to_string().chars().take(300).collect::<String>(),
                        after.0.to_string().chars().take(300).collect::<String>()),
                    &log);
                return
            }
            let _ = w.quiesce();
        }
    }
    r.count("remote_cases", 1);
    drop(w);
    let _ = std::fs::remove_dir_all(&dir);
}

fn main() {
    let args = Args::parse();
    let mut r = Report::new("C19", &args);
    if let Some(path) = &args.replay {
        let doc: Value = serde_json::from_slice(
            &std::fs::read(path).expect("read replay")
        ).expect("parse replay");
        let d = &doc["witness"]["desc"];
        let idx = d["hist"].as_u64().unwrap_or(0);
        let seed = d["seed"].as_u64().unwrap_or(0);
        let scenario = d["scenario"].as_u64().unwrap_or(0);
        run_history(&mut r, &args, idx, seed, scenario);
        println!("replay: {}", if r.violations.is_empty() { "no violation" }
            else { "violation reproduced" });
        r.write();
        return
    }
    let mut n = 0u64;
    loop {
        // six scripted scenarios, spread over shards and histories
        let idx = args.shard + n * args.nshards.max(1);
        let scenario = (args.shard + n) % 6;
        let seed = args.shard_seed().wrapping_mul(7919).wrapping_add(idx);
        run_history(&mut r, &args, idx, seed, scenario);
        if n % 3 == 0 && r.within_budget() {
            remote_case(&mut r, &args, idx, seed);
        }
        n += 1;
        if !r.within_budget() { break }
        let _ = std::fs::write(
            args.work.join("partial.json"),
            serde_json::to_vec(&r.to_json()).unwrap()
        );
    }
    r.write();
}
