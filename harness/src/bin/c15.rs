//! C15 - Trust-anchor proxy and signer only accept each other's fresh
//! messages.
//!
//! Set-up per episode (all through public API, no HTTP):
//!   * world 1: a krill instance with the TA *proxy only* (`ta_signer_enabled
//!     = false`), its repository, 1-3 child CAs with parent "ta";
//!   * S1: an external `TrustAnchorSignerManager` (own storage directory,
//!     TA key imported from a harness-generated PEM so that the signer can be
//!     re-initialised later), associated with proxy 1;
//!   * S1x: an "impostor" signer initialised for proxy 1 (it accepts proxy
//!     1's requests) but never associated with it; after a signer
//!     re-initialisation the *former* signer takes this role;
//!   * world 2 / S2: a second, independent proxy + signer pair.
//!
//! Every round takes proxy 1 through the three world states
//!   idle (no open request) -> open (request made) -> processed (honest
//!   response accepted, children not yet served)
//! and in every state delivers the whole matrix of hostile message classes:
//! to the proxy (responses) and to the signer (requests). Messages are built
//! from honest ones as JSON (clear-text edits, signature-blob edits, swaps of
//! whole messages and of signed blobs between messages) and by forging CMS
//! signed messages with other keys (impostor signer, other pair, the proxy's
//! own key, a fresh key) or with the right key but an expired validity.
//!
//! Oracle:
//!   * a hostile message that is accepted refutes the property;
//!   * a refused message after which the aggregate state (all fields except
//!     the command counter `version`, which krill increments for stored
//!     failed commands by design), the files held by the publication server
//!     or the pending task list differ refutes "refused without change";
//!   * the honest exchange: response nonce = request nonce, exactly one
//!     response per (child, key, kind) of the request and nothing else;
//!     after acceptance the proxy holds exactly those responses for exactly
//!     those children; every accepted response corresponds to a request
//!     that was (re-)added since its last response; each is handed to the
//!     child exactly once (successful GiveChildResponse commands in the
//!     proxy's command log, monitored across child retries) and is consumed
//!     by that child;
//!   * the proxy's objects are those of the last accepted response and the
//!     publication server holds exactly these;
//!   * manifest / CRL numbers: every signer response and every published TA
//!     manifest / CRL (decoded by the relying-party walk) has a number
//!     strictly greater than its predecessor, also with
//!     `ta_mft_number_override` (only values >= current + 1 are generated)
//!     and across signer re-initialisation with `ta_mft_nr_override`.
//!
//! Deviations from DESIGN.md, forced by the code:
//!   * "versions unchanged after a refusal" cannot be demanded: the
//!     aggregate store saves a refused command together with its error and
//!     increments the version (store.rs, `execute_opt_command`); the state
//!     is compared without that counter instead.
//!   * a re-initialised signer knows none of the certificates its
//!     predecessor issued and refuses a whole request that contains a
//!     revocation for one of them; the harness re-initialises at most once
//!     per episode, only while no revocation is pending, and afterwards
//!     does not let the earlier children finish a key roll.
//!   * `--boundary-override 1` (off by default) uses u64::MAX as an
//!     operator override once per episode; the following exchange then
//!     wraps the number to 0 (`ObjectSetRevision::next`, production
//!     arithmetic). Reported to the main session as a candidate finding.
//!
//! Extra arguments: `--reinit N` (probability 1/N per eligible round),
//! `--reinit-from R`, `--boundary-override 1`, `--selftest 1` (lists the
//! honest response as hostile to exercise the reporting path).

use std::collections::{BTreeMap, BTreeSet};
use std::path::{Path, PathBuf};
use base64::Engine;
use bytes::Bytes;
use kvh::oracle::key_roles;
use kvh::util::{self, Args, Report, Rng};
use kvh::world::{self, World, WorldCfg, HOST};
use krill::api;
use krill::api::ta::{TrustAnchorSignedRequest, TrustAnchorSignedResponse};
use krill::cli::ta::signer::{SignerInitInfo, TrustAnchorSignerManager};
use krill::commons::crypto::KrillSigner;
use krill::commons::storage::StorageSystem;
use rpki::crypto::KeyIdentifier;
use rpki::uri;
use serde_json::{json, Value};

const B64: base64::engine::GeneralPurpose =
    base64::engine::general_purpose::STANDARD;

type Triple = (String, String, String); // child, key, kind

//------------ small JSON helpers --------------------------------------------

fn canon(v: &Value, out: &mut String) {
    match v {
        Value::Object(m) => {
            let mut keys: Vec<&String> = m.keys().collect();
            keys.sort();
            out.push('{');
            for k in keys {
                out.push_str(k);
                out.push(':');
                canon(&m[k], out);
                out.push(',');
            }
            out.push('}');
        }
        Value::Array(a) => {
            out.push('[');
            for x in a { canon(x, out); out.push(','); }
            out.push(']');
        }
        other => out.push_str(&other.to_string()),
    }
}

fn canon_s(v: &Value) -> String {
    let mut s = String::new();
    canon(v, &mut s);
    s
}

/// Top-level (two levels deep) paths at which two JSON values differ.
fn diff_paths(a: &Value, b: &Value) -> Vec<String> {
    let mut res = vec![];
    fn rec(p: String, a: &Value, b: &Value, depth: usize, res: &mut Vec<String>) {
        if canon_s(a) == canon_s(b) { return }
        match (a, b) {
            (Value::Object(x), Value::Object(y)) if depth < 3 => {
                let keys: BTreeSet<&String> = x.keys().chain(y.keys()).collect();
                for k in keys {
                    rec(
                        format!("{p}/{k}"),
                        x.get(k).unwrap_or(&Value::Null),
                        y.get(k).unwrap_or(&Value::Null),
                        depth + 1, res
                    );
                }
            }
            _ => res.push(p),
        }
    }
    rec(String::new(), a, b, 0, &mut res);
    res
}

fn short(v: &Value) -> Value {
    match v {
        Value::Object(m) => Value::Object(
            m.iter().map(|(k, v)| (k.clone(), short(v))).collect()
        ),
        Value::Array(a) => Value::Array(a.iter().map(short).collect()),
        Value::String(s) if s.len() > 96 => Value::String(
            format!("{}...({} chars)", &s[..64], s.len())
        ),
        other => other.clone(),
    }
}

/// (child, key, kind) triples of a signed request (JSON).
fn req_triples(req: &Value) -> BTreeSet<Triple> {
    let mut res = BTreeSet::new();
    if let Some(list) = req["request"]["child_requests"].as_array() {
        for cr in list {
            let child = cr["child"].as_str().unwrap_or("?").to_string();
            if let Some(m) = cr["requests"].as_object() {
                for (key, rq) in m {
                    res.insert((child.clone(), key.clone(), kind_of(rq)));
                }
            }
        }
    }
    res
}

/// (child, key, kind) triples of a signed response (JSON).
fn resp_triples(resp: &Value) -> BTreeSet<Triple> {
    let mut res = BTreeSet::new();
    if let Some(m) = resp["response"]["child_responses"].as_object() {
        for (child, rs) in m {
            if let Some(rs) = rs.as_object() {
                for (key, rp) in rs {
                    res.insert((child.clone(), key.clone(), kind_of(rp)));
                }
            }
        }
    }
    res
}

fn kind_of(v: &Value) -> String {
    match v {
        Value::Object(m) => m.keys().next().cloned().unwrap_or("?".into()),
        Value::String(s) => s.clone(),
        _ => "?".into(),
    }
}

fn nonce_of_req(req: &Value) -> String {
    req["request"]["nonce"].as_str().unwrap_or("").to_string()
}

fn nonce_of_resp(resp: &Value) -> String {
    resp["response"]["nonce"].as_str().unwrap_or("").to_string()
}

fn number_of_resp(resp: &Value) -> u64 {
    resp["response"]["objects"]["revision"]["number"].as_u64().unwrap_or(0)
}

fn all_resources() -> Value {
    json!({"asn": "AS0-AS4294967295", "ipv4": "0.0.0.0/0", "ipv6": "::/0"})
}

fn random_uuid(rng: &mut Rng) -> String {
    let b = rng.bytes(16);
    let h = hex::encode(b);
    format!("{}-{}-4{}-a{}-{}", &h[0..8], &h[8..12], &h[13..16], &h[17..20],
            &h[20..32])
}

//------------ CMS blob edits ------------------------------------------------

fn blob_of(msg: &Value) -> Option<Vec<u8>> {
    B64.decode(msg["signed"]["message"].as_str()?).ok()
}

fn with_blob(msg: &Value, blob: &[u8]) -> Value {
    let mut m = msg.clone();
    m["signed"]["message"] = Value::String(B64.encode(blob));
    m
}

fn with_signed_of(msg: &Value, other: &Value) -> Value {
    let mut m = msg.clone();
    m["signed"] = other["signed"].clone();
    m
}

/// Flips one bit near the end (the signature value of the SignerInfo).
fn flip_tail(msg: &Value) -> Option<Value> {
    let mut b = blob_of(msg)?;
    if b.len() < 64 { return None }
    let n = b.len();
    b[n - 17] ^= 0x04;
    Some(with_blob(msg, &b))
}

/// Alters one character of the nonce inside the signed content.
fn flip_content(msg: &Value, nonce: &str) -> Option<Value> {
    let mut b = blob_of(msg)?;
    let pat = nonce.as_bytes();
    if pat.len() < 8 { return None }
    let pos = b.windows(pat.len()).position(|w| w == pat)?;
    b[pos + 3] = if b[pos + 3] == b'0' { b'1' } else { b'0' };
    Some(with_blob(msg, &b))
}

fn truncated(msg: &Value) -> Option<Value> {
    let b = blob_of(msg)?;
    Some(with_blob(msg, &b[..b.len() / 2]))
}

//------------ forging -------------------------------------------------------

struct Forger {
    signer: KrillSigner,
    key: KeyIdentifier,
}

fn sign_with(
    signer: &KrillSigner, key: &KeyIdentifier, content: &Value, days: i64
) -> Option<Value> {
    let data = Bytes::from(serde_json::to_string_pretty(content).ok()?);
    let msg = util::catch(|| {
        signer.create_ta_signed_message(data, days, key)
    }).ok()?.ok()?;
    let bytes = msg.to_captured().into_bytes();
    Some(json!({"message": B64.encode(bytes.as_ref())}))
}

/// Signs the clear text `msg[field]` (pretty JSON, as krill does) again.
fn resign_with(
    signer: &KrillSigner, key: &KeyIdentifier, msg: &Value, field: &str,
    days: i64,
) -> Option<Value> {
    let signed = sign_with(signer, key, &msg[field], days)?;
    let mut m = msg.clone();
    m["signed"] = signed;
    Some(m)
}

impl Forger {
    fn resign(&self, msg: &Value, field: &str, days: i64) -> Option<Value> {
        resign_with(&self.signer, &self.key, msg, field, days)
    }
}

//------------ signer handling -----------------------------------------------

struct Signer {
    mgr: TrustAnchorSignerManager,
    cfg: krill::tasigner::Config,
    dir: PathBuf,
}

impl Signer {
    fn new(dir: &Path) -> Result<Signer, String> {
        let _ = std::fs::remove_dir_all(dir);
        std::fs::create_dir_all(dir).map_err(|e| e.to_string())?;
        let toml = format!(
            "storage_uri = \"{}/\"\nlog_type = \"stderr\"\n\
             log_level = \"off\"\n",
            dir.display()
        );
        let cfg = krill::tasigner::Config::parse_str(&toml)
            .map_err(|e| e.to_string())?;
        let mgr = TrustAnchorSignerManager::create(cfg.clone())
            .map_err(|e| e.to_string())?;
        Ok(Signer { mgr, cfg, dir: dir.to_path_buf() })
    }

    fn init(
        &self, w: &World, pem: Option<String>, nr: Option<u64>
    ) -> Result<(), String> {
        let k = &w.krill;
        let info = SignerInitInfo {
            proxy_id: k.ca_manager().ta_proxy_id()
                .map_err(|e| e.to_string())?,
            repo_info: k.ca_manager().ta_proxy_repository_contact()
                .map_err(|e| e.to_string())?.repo_info,
            tal_https: vec![uri::Https::from_string(
                format!("https://{HOST}/ta/ta.cer")).unwrap()],
            tal_rsync: uri::Rsync::from_string(
                format!("rsync://{HOST}/ta/ta.cer")).unwrap(),
            private_key_pem: pem,
            ta_mft_nr_override: nr,
        };
        self.mgr.init(info).map(|_| ()).map_err(|e| e.to_string())
    }

    fn info(&self) -> Result<Value, String> {
        let i = self.mgr.show().map_err(|e| e.to_string())?;
        serde_json::to_value(&i).map_err(|e| e.to_string())
    }

    fn number(&self) -> u64 {
        self.info().ok().and_then(|v| {
            v["objects"]["revision"]["number"].as_u64()
        }).unwrap_or(0)
    }

    fn id_key(&self) -> Option<KeyIdentifier> {
        Some(self.mgr.show().ok()?.id.public_key.key_identifier())
    }

    /// A second `KrillSigner` over the signer's storage (what every run of
    /// the signer command line does) used to sign with its ID key.
    fn forger(&self) -> Option<Forger> {
        let storage = StorageSystem::new(self.cfg.storage_uri.clone());
        let signer = self.cfg.signer(&storage).ok()?;
        Some(Forger { signer, key: self.id_key()? })
    }

    /// State that must not change when a request is refused.
    fn digest(&self) -> Value {
        let info = self.info().unwrap_or(Value::Null);
        let ex = self.mgr.show_exchanges().ok()
            .and_then(|e| serde_json::to_value(&e).ok())
            .unwrap_or(Value::Null);
        json!({"info": info, "exchanges": ex})
    }

    fn process(
        &self, req: &Value, nr: Option<u64>
    ) -> Result<Result<Value, String>, String> {
        let parsed: TrustAnchorSignedRequest =
            match serde_json::from_value(req.clone()) {
                Ok(p) => p,
                Err(e) => return Ok(Err(format!("decode: {e}"))),
            };
        util::catch(|| {
            self.mgr.process(parsed, nr).map_err(|e| e.to_string())
                .map(|resp| serde_json::to_value(&resp).unwrap())
        })
    }
}

//------------ proxy world ---------------------------------------------------

fn proxy_world(dir: PathBuf) -> Result<World, String> {
    let mut cfg = WorldCfg::new(dir);
    cfg.ta_signer_embedded = false;
    let w = World::create(cfg);
    let k = &w.krill;
    let e = |e: krill::commons::error::Error| e.to_string();
    k.ca_manager().ta_proxy_init(k).map_err(e)?;
    let pr = k.ca_manager().ta_proxy_publisher_request().map_err(e)?;
    k.repo_manager().create_publisher(pr, &w.actor).map_err(e)?;
    let resp = k.repo_manager().repository_response(
        &world::h("ta").convert(), k
    ).map_err(e)?;
    let contact = api::admin::RepositoryContact::try_from_response(resp)
        .map_err(e)?;
    k.ca_manager().ta_proxy_repository_update(contact, &w.actor, k)
        .map_err(e)?;
    Ok(w)
}

fn proxy_value(w: &World) -> Value {
    match w.krill.ca_manager().get_trust_anchor_proxy() {
        Ok(p) => serde_json::to_value(&*p).unwrap_or(Value::Null),
        Err(_) => Value::Null,
    }
}

fn proxy_version(w: &World) -> u64 {
    proxy_value(w)["version"].as_u64().unwrap_or(0)
}

/// Everything that must stay the same when the proxy refuses a message.
fn proxy_digest(w: &World) -> Value {
    let mut p = proxy_value(w);
    if let Some(m) = p.as_object_mut() { m.remove("version"); }
    let files: BTreeMap<String, String> = w.publisher_files().iter()
        .map(|(u, b)| (u.clone(), format!("{:016x}", util::fnv(b))))
        .collect();
    let pending: Vec<String> = w.pending().into_iter().map(|p| p.1).collect();
    json!({"proxy": p, "files": files, "pending": pending})
}

fn proxy_open_nonce(w: &World) -> Option<String> {
    proxy_value(w)["open_signer_request"].as_str().map(|s| s.to_string())
}

/// (open request triples, child -> key -> open response) of the proxy.
fn proxy_children(w: &World) -> (BTreeSet<Triple>, BTreeMap<(String, String), Value>) {
    let p = proxy_value(w);
    let mut open = BTreeSet::new();
    let mut resp = BTreeMap::new();
    if let Some(m) = p["child_details"].as_object() {
        for (child, d) in m {
            if let Some(rq) = d["open_requests"].as_object() {
                for (key, v) in rq {
                    open.insert((child.clone(), key.clone(), kind_of(v)));
                }
            }
            if let Some(rs) = d["open_responses"].as_object() {
                for (key, v) in rs {
                    resp.insert((child.clone(), key.clone()), v.clone());
                }
            }
        }
    }
    (open, resp)
}

fn deliver_response(
    w: &World, msg: &Value
) -> Result<Result<(), String>, String> {
    let parsed: TrustAnchorSignedResponse =
        match serde_json::from_value(msg.clone()) {
            Ok(p) => p,
            Err(e) => return Ok(Err(format!("decode: {e}"))),
        };
    let k = w.krill.clone();
    let actor = w.actor.clone();
    util::catch(move || {
        k.ca_manager().ta_proxy_signer_process_response(parsed, &actor, &k)
            .map_err(|e| e.to_string())
    })
}

fn make_request(w: &World) -> Result<Value, String> {
    let k = &w.krill;
    let api_req = k.ca_manager().ta_proxy_signer_make_request(&w.actor, k)
        .map_err(|e| e.to_string())?;
    let req: TrustAnchorSignedRequest = api_req.into();
    serde_json::to_value(&req).map_err(|e| e.to_string())
}

fn get_request(w: &World) -> Result<Value, String> {
    let k = &w.krill;
    let api_req = k.ca_manager().ta_proxy_signer_get_request(k)
        .map_err(|e| e.to_string())?;
    let req: TrustAnchorSignedRequest = api_req.into();
    serde_json::to_value(&req).map_err(|e| e.to_string())
}

fn reason_of(err: &str) -> &'static str {
    let e = err.to_ascii_lowercase();
    if e.starts_with("decode:") { "json-decode" }
    else if e.contains("has no signer request") { "no-open-request" }
    else if e.contains("nonce") { "nonce-mismatch" }
    else if e.contains("cannot decode signed message") { "cms-decode" }
    else if e.contains("invalid signed message") { "cms-invalid" }
    else if e.contains("does not match the contained signed message") {
        "cleartext-differs-from-signed"
    }
    else if e.contains("cannot deserialize content") { "signed-content-type" }
    else if e.contains("already has") || e.contains("has a signer request")
        || e.contains("request") && e.contains("exist") { "request-open" }
    else { "other" }
}

//------------ exchange history ----------------------------------------------

struct Exch {
    req: Value,
    /// S1's honest response(s) to the request; `resp` is the one delivered.
    resp: Value,
    sibling: Option<Value>,
    impostor: Option<Value>,
}

#[derive(Default)]
struct Acct {
    prev_open: BTreeSet<Triple>,
    fresh: BTreeSet<Triple>,
    accepted: BTreeMap<(String, String), u64>,
    given: BTreeMap<(String, String), u64>,
    log_pos: u64,
    last_mft: Option<(u64, u128)>,
    last_crl: Option<(u64, u128)>,
}

struct Env {
    idx: u64,
    dir: PathBuf,
    w: World,
    s1: Signer,
    s1x: Option<Signer>,
    generation: u32,
    ta_pem: String,
    w2: World,
    s2: Signer,
    q2: Option<Value>,
    y: Option<Value>,
    f_s1: Option<Forger>,
    f_s1x: Option<Forger>,
    f_s2: Option<Forger>,
    f_fresh: Option<Forger>,
    p1_key: KeyIdentifier,
    p2_key: KeyIdentifier,
    hist: Vec<Exch>,
    cur_req: Option<Value>,
    children: Vec<String>,
    max_children: usize,
    acct: Acct,
    round: u64,
    corrupt: bool,
    log: Vec<String>,
    /// Children whose keys were certified by a former signer: a
    /// re-initialised signer does not know these certificates and refuses
    /// any request that asks for their revocation (an operator-level
    /// consequence of re-initialisation, not part of the property), so the
    /// harness does not let these children finish a key roll.
    legacy: BTreeSet<String>,
    reinit_done: bool,
    /// `--selftest 1`: the honest response is (wrongly) listed as a hostile
    /// class, to see the reporting path fire. Never set by the driver.
    selftest: bool,
    /// Forged messages are expensive (one-off RSA key per CMS): the same
    /// forged message is reused in the other world states.
    forge_cache: std::cell::RefCell<BTreeMap<(String, u64), Option<Value>>>,
}

const CHILD_RES: [(&str, &str, &str, &str); 3] = [
    ("c1", "AS65001", "10.1.0.0/16", ""),
    ("c2", "AS65002", "10.2.0.0/16", "2001:db8:2::/48"),
    ("c3", "AS65003-AS65005", "10.3.0.0/16, 192.168.0.0/24", ""),
];

impl Env {
    fn create(args: &Args, idx: u64, rng: &mut Rng) -> Result<Env, String> {
        let dir = args.work.join("ep");
        let _ = std::fs::remove_dir_all(&dir);
        let w = proxy_world(dir.join("w1"))?;
        let pem = openssl::rsa::Rsa::generate(2048)
            .and_then(|k| k.private_key_to_pem())
            .map_err(|e| e.to_string())?;
        let ta_pem = String::from_utf8(pem).map_err(|e| e.to_string())?;
        let first_nr = match rng.below(3) {
            0 => None, 1 => Some(1), _ => Some(rng.range(2, 5000)),
        };
        let s1 = Signer::new(&dir.join("s1-g0"))?;
        s1.init(&w, Some(ta_pem.clone()), first_nr)?;
        let info: krill::api::ta::TrustAnchorSignerInfo =
            s1.mgr.show().map_err(|e| e.to_string())?;
        w.krill.ca_manager().ta_proxy_signer_add(info, &w.actor, &w.krill)
            .map_err(|e| e.to_string())?;
        let s1x = Signer::new(&dir.join("s1x"))?;
        s1x.init(&w, None, None)?;

        let w2 = proxy_world(dir.join("w2"))?;
        let s2 = Signer::new(&dir.join("s2"))?;
        s2.init(&w2, None, None)?;
        w2.krill.ca_manager().ta_proxy_signer_add(
            s2.mgr.show().map_err(|e| e.to_string())?, &w2.actor, &w2.krill
        ).map_err(|e| e.to_string())?;

        let fresh = Signer::new(&dir.join("fresh"))?;
        let f_fresh = {
            let storage = StorageSystem::new(fresh.cfg.storage_uri.clone());
            fresh.cfg.signer(&storage).ok().and_then(|signer| {
                let key = signer.create_key().ok()?;
                Some(Forger { signer, key })
            })
        };
        let p1_key = w.krill.ca_manager().ta_proxy_id()
            .map_err(|e| e.to_string())?.public_key.key_identifier();
        let p2_key = w2.krill.ca_manager().ta_proxy_id()
            .map_err(|e| e.to_string())?.public_key.key_identifier();
        let f_s1 = s1.forger();
        let f_s1x = s1x.forger();
        let f_s2 = s2.forger();
        let mut env = Env {
            idx, dir, w, s1, s1x: Some(s1x), generation: 0, ta_pem,
            w2, s2, q2: None, y: None,
            f_s1, f_s1x, f_s2, f_fresh, p1_key, p2_key,
            hist: vec![], cur_req: None, children: vec![],
            max_children: 3, acct: Acct::default(), round: 0,
            corrupt: false, log: vec![],
            forge_cache: Default::default(),
            legacy: BTreeSet::new(), reinit_done: false,
            selftest: args.extra_u64("selftest", 0) == 1,
        };
        let n0 = rng.range(1, 3) as usize;
        for _ in 0..n0 { env.add_child()?; }
        Ok(env)
    }

    fn note(&mut self, s: impl Into<String>) {
        self.log.push(format!("r{}: {}", self.round, s.into()));
    }

    fn add_child(&mut self) -> Result<(), String> {
        let (name, asn, v4, v6) = CHILD_RES[self.children.len()];
        self.w.add_ca(name, "ta", world::rs(asn, v4, v6))
            .map_err(|e| format!("add child {name}: {e}"))?;
        self.children.push(name.to_string());
        self.note(format!("add child {name}"));
        Ok(())
    }

    fn cached(
        &self, class: &str, msg: &Value, field: &str,
        f: impl FnOnce() -> Option<Value>
    ) -> Option<Value> {
        let key = (class.to_string(),
                   util::fnv(canon_s(&msg[field]).as_bytes()));
        if let Some(v) = self.forge_cache.borrow().get(&key) {
            return v.clone()
        }
        let v = f();
        let mut cache = self.forge_cache.borrow_mut();
        if cache.len() > 64 { cache.clear(); }
        cache.insert(key, v.clone());
        v
    }

    fn resign_p1(&self, msg: &Value, field: &str, days: i64) -> Option<Value> {
        resign_with(self.w.krill.signer(), &self.p1_key, msg, field, days)
    }

    fn resign_p2(&self, msg: &Value, field: &str, days: i64) -> Option<Value> {
        resign_with(self.w2.krill.signer(), &self.p2_key, msg, field, days)
    }

    fn witness(&self, extra: Value) -> Value {
        json!({
            "episode": self.idx, "round": self.round,
            "generation": self.generation,
            "children": self.children,
            "log": self.log,
            "how_to_rerun": "c15 --seed <seed> --shard <shard> --nshards \
                             <n> (same tier); cases are re-generated from \
                             the seed",
            "case": extra,
        })
    }

    /// The most recent request of proxy 1 (open or closed) and the one
    /// before it.
    fn q_latest(&self) -> Option<&Value> {
        self.cur_req.as_ref().or(self.hist.last().map(|e| &e.req))
    }

    fn q_older(&self) -> Option<&Value> {
        if self.cur_req.is_some() {
            self.hist.last().map(|e| &e.req)
        } else if self.hist.len() >= 2 {
            Some(&self.hist[self.hist.len() - 2].req)
        } else { None }
    }

    fn b(&self) -> Option<&Exch> { self.hist.last() }

    fn a(&self) -> Option<&Exch> {
        if self.hist.len() >= 2 { Some(&self.hist[self.hist.len() - 2]) }
        else { None }
    }
}

//------------ message classes -----------------------------------------------

fn edit(msg: &Value, field: &str, f: impl FnOnce(&mut Value) -> bool)
    -> Option<Value>
{
    let mut m = msg.clone();
    if f(&mut m[field]) { Some(m) } else { None }
}

/// Collects the classes selected for this pass; the (expensive) message
/// construction only runs for selected classes.
struct Sel<'a> {
    v: Vec<(&'static str, Option<Value>)>,
    sel: &'a dyn Fn(&str) -> bool,
}

impl Sel<'_> {
    fn add(&mut self, name: &'static str, f: &mut dyn FnMut() -> Option<Value>) {
        if (self.sel)(name) { self.v.push((name, f())); }
    }
}

/// Hostile response classes for proxy 1 in the given state.
fn response_classes(
    env: &Env, state: &str, rng: &mut Rng, sel: &dyn Fn(&str) -> bool
) -> Vec<(&'static str, Option<Value>)> {
    let mut v: Sel = Sel { v: vec![], sel };
    let b = env.b();
    let a = env.a();
    let bresp = b.map(|e| &e.resp);
    let aresp = a.map(|e| &e.resp);
    let cur_nonce = proxy_open_nonce(&env.w)
        .or(bresp.map(nonce_of_resp)).unwrap_or_default();
    let open = state == "open";

    if env.selftest && open {
        v.add("selftest-honest-response", &mut || bresp.cloned());
    }
    // whole honest messages out of place
    if !open { v.add("replay-latest", &mut || bresp.cloned()); }
    v.add("replay-older", &mut || aresp.cloned());
    // an honest second answer of the signer that was never delivered
    let sib = if open { a.and_then(|e| e.sibling.clone()) }
        else { b.and_then(|e| e.sibling.clone())
            .or(a.and_then(|e| e.sibling.clone())) };
    v.add("undelivered-sibling", &mut || sib.clone());
    v.add("impostor-signer-same-request", &mut ||
            b.and_then(|e| e.impostor.clone()));
    v.add("impostor-signer-older-request", &mut ||
            a.and_then(|e| e.impostor.clone()));
    v.add("other-pair-response", &mut || env.y.clone());

    // re-labelled nonces (clear text only)
    let relabel = |m: &Value, n: &str| edit(m, "response", |r| {
        r["nonce"] = json!(n); true
    });
    v.add("relabel-older-with-current-nonce", &mut ||
            aresp.and_then(|m| relabel(m, &cur_nonce)));
    v.add("relabel-other-pair-with-current-nonce", &mut ||
            env.y.as_ref().and_then(|m| relabel(m, &cur_nonce)));
    v.add("relabel-impostor-older-with-current-nonce", &mut ||
            a.and_then(|e| e.impostor.as_ref())
                .and_then(|m| relabel(m, &cur_nonce)));
    let rnd = random_uuid(rng);
    v.add("cleartext-nonce-random", &mut ||
            bresp.and_then(|m| relabel(m, &rnd)));
    v.add("cleartext-nonce-uppercase", &mut || bresp.and_then(|m| {
        let n = nonce_of_resp(m).to_ascii_uppercase();
        if n == nonce_of_resp(m) { None } else { relabel(m, &n) }
    }));

    // clear-text content edits with the original signature
    v.add("cleartext-drop-child-responses", &mut || bresp.and_then(|m| {
        edit(m, "response", |r| {
            let had = r["child_responses"].as_object()
                .map(|o| !o.is_empty()).unwrap_or(false);
            r["child_responses"] = json!({});
            had
        })
    }));
    v.add("cleartext-responses-to-other-child", &mut || bresp.and_then(|m| {
        edit(m, "response", |r| {
            let Some(o) = r["child_responses"].as_object_mut() else {
                return false
            };
            let Some(first) = o.keys().next().cloned() else { return false };
            let target = ["c1", "c2", "c3", "ghost"].iter()
                .find(|c| !o.contains_key(**c)).unwrap().to_string();
            let val = o.remove(&first).unwrap();
            o.insert(target, val);
            true
        })
    }));
    v.add("cleartext-inject-old-child-response", &mut || bresp.and_then(|m| {
        // re-delivery of an earlier certificate / revocation
        let have = resp_triples(m);
        let old = env.hist.iter().rev().skip(1).find_map(|e| {
            resp_triples(&e.resp).into_iter().find(|t| {
                !have.iter().any(|h| h.0 == t.0 && h.1 == t.1)
            }).map(|t| (t.clone(),
                e.resp["response"]["child_responses"][&t.0][&t.1].clone()))
        })?;
        edit(m, "response", |r| {
            r["child_responses"][&old.0.0][&old.0.1] = old.1.clone();
            true
        })
    }));
    v.add("cleartext-widen-issued-resources", &mut || bresp.and_then(|m| {
        edit(m, "response", |r| {
            let mut done = false;
            if let Some(o) = r["child_responses"].as_object_mut() {
                'outer: for (_c, rs) in o.iter_mut() {
                    if let Some(rs) = rs.as_object_mut() {
                        for (_k, rp) in rs.iter_mut() {
                            if rp.get("Issuance").is_some() {
                                rp["Issuance"]["resource_set"] = all_resources();
                                done = true;
                                break 'outer
                            }
                        }
                    }
                }
            }
            if !done {
                if let Some(o) = r["objects"]["issued"].as_object_mut() {
                    if let Some((_k, c)) = o.iter_mut().next() {
                        c["resources"] = all_resources();
                        done = true;
                    }
                }
            }
            done
        })
    }));
    v.add("cleartext-number-up", &mut || bresp.and_then(|m| {
        edit(m, "response", |r| {
            let n = r["objects"]["revision"]["number"].as_u64().unwrap_or(0);
            r["objects"]["revision"]["number"] = json!(n.saturating_add(1000));
            n.saturating_add(1000) != n
        })
    }));
    v.add("cleartext-number-down", &mut || bresp.and_then(|m| {
        edit(m, "response", |r| {
            let n = r["objects"]["revision"]["number"].as_u64().unwrap_or(0);
            r["objects"]["revision"]["number"] = json!(n / 2);
            n / 2 != n
        })
    }));
    v.add("cleartext-next-update-later", &mut || bresp.and_then(|m| {
        edit(m, "response", |r| {
            r["objects"]["revision"]["next_update"] =
                json!("2046-01-01T00:00:00Z");
            r["objects"]["revision"]["this_update"] =
                json!("2020-01-01T00:00:00Z");
            true
        })
    }));
    v.add("cleartext-rollback-objects", &mut || bresp.and_then(|m| {
        let old = aresp?["response"]["objects"].clone();
        edit(m, "response", |r| { r["objects"] = old; true })
    }));
    v.add("cleartext-old-crl", &mut || bresp.and_then(|m| {
        let old = aresp?["response"]["objects"]["crl"].clone();
        edit(m, "response", |r| {
            r["objects"]["crl"] = old;
            r["objects"]["revocations"] = json!([]);
            true
        })
    }));
    v.add("cleartext-drop-issued", &mut || bresp.and_then(|m| {
        edit(m, "response", |r| {
            let Some(o) = r["objects"]["issued"].as_object_mut() else {
                return false
            };
            let Some(k) = o.keys().next().cloned() else { return false };
            o.remove(&k);
            true
        })
    }));

    // signature blob edits / swaps
    v.add("signed-bitflip-signature", &mut || bresp.and_then(flip_tail));
    v.add("signed-content-altered", &mut || bresp.and_then(|m| {
        flip_content(m, &nonce_of_resp(m))
    }));
    v.add("signed-truncated", &mut || bresp.and_then(truncated));
    v.add("signed-empty", &mut || bresp.map(|m| with_blob(m, b"")));
    v.add("signed-garbage", &mut || bresp.map(|m| with_blob(m, &rng.bytes(700))));
    v.add("signed-from-older-response", &mut || bresp.and_then(|m| {
        Some(with_signed_of(m, aresp?))
    }));
    v.add("signed-from-impostor", &mut || bresp.and_then(|m| {
        Some(with_signed_of(m, b?.impostor.as_ref()?))
    }));
    v.add("signed-from-request", &mut || bresp.and_then(|m| {
        Some(with_signed_of(m, &b?.req))
    }));
    v.add("signed-from-other-pair", &mut || bresp.and_then(|m| {
        Some(with_signed_of(m, env.y.as_ref()?))
    }));

    // same content, forged signatures
    v.add("resigned-by-impostor-key", &mut || bresp.and_then(|m| {
        env.cached("resp-impostor", m, "response", || {
            env.f_s1x.as_ref()?.resign(m, "response", 14)
        })
    }));
    v.add("resigned-by-other-signer-key", &mut || bresp.and_then(|m| {
        env.cached("resp-s2", m, "response", || {
            env.f_s2.as_ref()?.resign(m, "response", 14)
        })
    }));
    v.add("resigned-by-proxy-own-key", &mut || bresp.and_then(|m| {
        env.cached("resp-p1", m, "response", || {
            env.resign_p1(m, "response", 14)
        })
    }));
    v.add("resigned-by-fresh-key", &mut || bresp.and_then(|m| {
        env.cached("resp-fresh", m, "response", || {
            env.f_fresh.as_ref()?.resign(m, "response", 14)
        })
    }));
    v.add("expired-signature-by-signer-key", &mut || bresp.and_then(|m| {
        env.cached("resp-expired", m, "response", || {
            env.f_s1.as_ref()?.resign(m, "response", -1)
        })
    }));
    v.v
}

/// Hostile request classes for signer S1.
fn request_classes(
    env: &Env, rng: &mut Rng, sel: &dyn Fn(&str) -> bool
) -> Vec<(&'static str, Option<Value>)> {
    let mut v: Sel = Sel { v: vec![], sel };
    let q = env.q_latest();
    let qo = env.q_older();
    v.add("other-proxy-request", &mut || env.q2.clone());
    let rnd = random_uuid(rng);
    v.add("cleartext-nonce-random", &mut || q.and_then(|m| {
        edit(m, "request", |r| { r["nonce"] = json!(rnd); true })
    }));
    v.add("cleartext-drop-child-requests", &mut || q.and_then(|m| {
        edit(m, "request", |r| {
            let had = r["child_requests"].as_array()
                .map(|a| !a.is_empty()).unwrap_or(false);
            r["child_requests"] = json!([]);
            had
        })
    }));
    v.add("cleartext-widen-entitlement", &mut || q.and_then(|m| {
        edit(m, "request", |r| {
            let Some(a) = r["child_requests"].as_array_mut() else {
                return false
            };
            let Some(first) = a.first_mut() else { return false };
            first["resources"] = all_resources();
            true
        })
    }));
    v.add("cleartext-rename-child", &mut || q.and_then(|m| {
        edit(m, "request", |r| {
            let Some(a) = r["child_requests"].as_array_mut() else {
                return false
            };
            let Some(first) = a.first_mut() else { return false };
            first["child"] = json!("ghost");
            true
        })
    }));
    v.add("cleartext-inject-old-child-request", &mut || q.and_then(|m| {
        let have: BTreeSet<String> = req_triples(m).into_iter()
            .map(|t| t.0).collect();
        let old = env.hist.iter().rev().find_map(|e| {
            e.req["request"]["child_requests"].as_array()?.iter()
                .find(|cr| {
                    !have.contains(cr["child"].as_str().unwrap_or(""))
                }).cloned()
        }).or_else(|| {
            // no other child: re-add an old request of the same child
            env.hist.iter().rev().find_map(|e| {
                e.req["request"]["child_requests"].as_array()?
                    .first().cloned()
            }).filter(|_| have.is_empty())
        })?;
        edit(m, "request", |r| {
            match r["child_requests"].as_array_mut() {
                Some(a) => { a.push(old); true }
                None => false,
            }
        })
    }));
    v.add("cleartext-swap-csr-or-key", &mut || q.and_then(|m| {
        // replace the first provisioning request by one of an older exchange
        let old = env.hist.iter().rev().find_map(|e| {
            e.req["request"]["child_requests"].as_array()?.iter()
                .find_map(|cr| cr["requests"].as_object()?
                    .iter().next().map(|(k, v)| (k.clone(), v.clone())))
        })?;
        edit(m, "request", |r| {
            let Some(a) = r["child_requests"].as_array_mut() else {
                return false
            };
            let Some(first) = a.first_mut() else { return false };
            let Some(o) = first["requests"].as_object_mut() else {
                return false
            };
            if o.contains_key(&old.0) { return false }
            let Some(k) = o.keys().next().cloned() else { return false };
            o.remove(&k);
            o.insert(old.0.clone(), old.1.clone());
            true
        })
    }));
    v.add("signed-empty", &mut || q.map(|m| with_blob(m, b"")));
    v.add("signed-garbage", &mut || q.map(|m| with_blob(m, &rng.bytes(500))));
    v.add("signed-bitflip-signature", &mut || q.and_then(flip_tail));
    v.add("signed-content-altered", &mut || q.and_then(|m| {
        flip_content(m, &nonce_of_req(m))
    }));
    v.add("signed-truncated", &mut || q.and_then(truncated));
    v.add("signed-from-older-request", &mut || q.and_then(|m| {
        Some(with_signed_of(m, qo?))
    }));
    v.add("signed-from-other-proxy", &mut || q.and_then(|m| {
        Some(with_signed_of(m, env.q2.as_ref()?))
    }));
    v.add("signed-from-own-response", &mut || q.and_then(|m| {
        Some(with_signed_of(m, &env.b()?.resp))
    }));
    v.add("resigned-by-other-proxy-key", &mut || q.and_then(|m| {
        env.cached("req-p2", m, "request", || {
            env.resign_p2(m, "request", 14)
        })
    }));
    v.add("resigned-by-signer-own-key", &mut || q.and_then(|m| {
        env.cached("req-s1", m, "request", || {
            env.f_s1.as_ref()?.resign(m, "request", 14)
        })
    }));
    v.add("resigned-by-fresh-key", &mut || q.and_then(|m| {
        env.cached("req-fresh", m, "request", || {
            env.f_fresh.as_ref()?.resign(m, "request", 14)
        })
    }));
    v.add("expired-signature-by-proxy-key", &mut || q.and_then(|m| {
        env.cached("req-expired", m, "request", || {
            env.resign_p1(m, "request", -1)
        })
    }));
    v.add("widened-and-resigned-by-other-proxy", &mut || q.and_then(|m| {
        env.cached("req-widened-p2", m, "request", || {
            let m2 = edit(m, "request", |r| {
                if let Some(first) = r["child_requests"].as_array_mut()
                    .and_then(|a| a.first_mut())
                {
                    first["resources"] = all_resources();
                }
                r["nonce"] = json!(random_uuid(&mut Rng::new(7)));
                true
            })?;
            env.resign_p2(&m2, "request", 14)
        })
    }));
    v.v
}

//------------ judging -------------------------------------------------------

fn judge_responses(
    env: &mut Env, r: &mut Report, rng: &mut Rng, state: &str, full: bool
) {
    let t0 = std::time::Instant::now();
    let salt = rng.next();
    let sel = move |name: &str| {
        full || util::fnv(format!("{name}{salt}").as_bytes()) % 5 == 0
    };
    let classes = response_classes(env, state, rng, &sel);
    r.count("ms_build_responses", t0.elapsed().as_millis() as u64);
    let t0 = std::time::Instant::now();
    let mut before = proxy_digest(&env.w);
    let mut before_s = canon_s(&before);
    for (class, msg) in classes {
        if env.corrupt { return }
        let cell = format!("resp:{class}@{state}");
        let Some(msg) = msg else {
            r.count("cells_not_constructible_now", 1);
            continue
        };
        r.eval();
        r.count("hostile_responses_judged", 1);
        let open_nonce = proxy_open_nonce(&env.w);
        match deliver_response(&env.w, &msg) {
            Err(panic) => {
                r.violation(
                    &format!("panic:proxy:{class}"),
                    &format!("proxy panicked on {cell}: {panic}"),
                    env.witness(json!({"cell": cell, "message": msg})),
                );
                env.corrupt = true;
            }
            Ok(Ok(())) => {
                r.violation(
                    &format!("proxy-accepted:{class}@{state}"),
                    &format!(
                        "the proxy accepted a response of class '{class}' \
                         in state '{state}' (open nonce {:?}, message \
                         nonce {})",
                        open_nonce, nonce_of_resp(&msg)
                    ),
                    env.witness(json!({
                        "cell": cell, "message": msg,
                        "proxy_before": short(&before["proxy"]),
                    })),
                );
                env.corrupt = true;
            }
            Ok(Err(e)) => {
                let reason = reason_of(&e);
                if reason == "json-decode" {
                    r.count("refused_at_json_decoding", 1);
                } else {
                    r.nontrivial(cell.clone());
                }
                r.distinct("refusal_reasons", format!("{cell}:{reason}"));
                let after = proxy_digest(&env.w);
                let after_s = canon_s(&after);
                if after_s != before_s {
                    r.violation(
                        &format!("refused-but-changed:proxy:{class}@{state}"),
                        &format!(
                            "the proxy refused {cell} ({e}) but its state \
                             changed at {:?}", diff_paths(&before, &after)
                        ),
                        env.witness(json!({
                            "cell": cell, "message": msg, "error": e,
                            "changed": diff_paths(&before, &after),
                        })),
                    );
                    before = after;
                    before_s = after_s;
                }
                if r.samples.len() < 4 && rng.chance(1, 40) {
                    r.sample(json!({"cell": cell, "error": e,
                                    "message": short(&msg)}));
                }
            }
        }
    }
    r.count("ms_judge_responses", t0.elapsed().as_millis() as u64);
}

fn judge_requests(
    env: &mut Env, r: &mut Report, rng: &mut Rng, state: &str, full: bool
) {
    let t0 = std::time::Instant::now();
    let salt = rng.next();
    let sel = move |name: &str| {
        full || util::fnv(format!("{name}{salt}").as_bytes()) % 5 == 0
    };
    let classes = request_classes(env, rng, &sel);
    r.count("ms_build_requests", t0.elapsed().as_millis() as u64);
    let t0 = std::time::Instant::now();
    let mut before = env.s1.digest();
    let mut before_s = canon_s(&before);
    let proxy_before = canon_s(&proxy_digest(&env.w));
    for (class, msg) in classes {
        if env.corrupt { return }
        let cell = format!("req:{class}@{state}");
        let Some(msg) = msg else {
            r.count("cells_not_constructible_now", 1);
            continue
        };
        r.eval();
        r.count("hostile_requests_judged", 1);
        match env.s1.process(&msg, None) {
            Err(panic) => {
                r.violation(
                    &format!("panic:signer:{class}"),
                    &format!("signer panicked on {cell}: {panic}"),
                    env.witness(json!({"cell": cell, "message": msg})),
                );
                env.corrupt = true;
            }
            Ok(Ok(resp)) => {
                r.violation(
                    &format!("signer-processed:{class}@{state}"),
                    &format!(
                        "the signer processed a request of class '{class}' \
                         in state '{state}' and produced a response with \
                         number {}", number_of_resp(&resp)
                    ),
                    env.witness(json!({
                        "cell": cell, "message": msg,
                        "response": short(&resp),
                    })),
                );
                env.corrupt = true;
            }
            Ok(Err(e)) => {
                let reason = reason_of(&e);
                if reason == "json-decode" {
                    r.count("refused_at_json_decoding", 1);
                } else {
                    r.nontrivial(cell.clone());
                }
                r.distinct("refusal_reasons", format!("{cell}:{reason}"));
                let after = env.s1.digest();
                let after_s = canon_s(&after);
                if after_s != before_s {
                    r.violation(
                        &format!("refused-but-changed:signer:{class}@{state}"),
                        &format!(
                            "the signer refused {cell} ({e}) but its state \
                             changed at {:?}", diff_paths(&before, &after)
                        ),
                        env.witness(json!({
                            "cell": cell, "message": msg, "error": e,
                            "changed": diff_paths(&before, &after),
                        })),
                    );
                    before = after;
                    before_s = after_s;
                }
            }
        }
    }
    r.count("ms_judge_requests", t0.elapsed().as_millis() as u64);
    if !env.corrupt && canon_s(&proxy_digest(&env.w)) != proxy_before {
        r.inconclusive(format!(
            "episode {} round {}: proxy state moved while requests were \
             judged", env.idx, env.round
        ));
    }
}

//------------ accounting ----------------------------------------------------

/// Updates the bookkeeping from the proxy's state and command log.
fn observe(env: &mut Env, r: &mut Report) {
    let (open, _resp) = proxy_children(&env.w);
    for t in open.difference(&env.acct.prev_open) {
        env.acct.fresh.insert(t.clone());
        r.count("child_requests_added", 1);
        r.distinct("child_request_kinds", t.2.clone());
    }
    env.acct.prev_open = open;
    let version = proxy_version(&env.w);
    let base = env.w.data_dir().join("ta_proxy").join("ta");
    while env.acct.log_pos < version {
        let p = base.join(format!("command-{}.json", env.acct.log_pos));
        let Ok(bytes) = std::fs::read(&p) else { break };
        let Ok(cmd) = serde_json::from_slice::<Value>(&bytes) else { break };
        env.acct.log_pos += 1;
        if cmd["effect"]["result"] != "success" { continue }
        if let Some(g) = cmd["details"]["GiveChildResponse"].as_array() {
            let child = g[0].as_str().unwrap_or("?").to_string();
            let key = g[1].as_str().unwrap_or("?").to_string();
            let ck = (child.clone(), key.clone());
            let given = env.acct.given.entry(ck.clone()).or_insert(0);
            *given += 1;
            let given = *given;
            r.count("children_served", 1);
            let accepted = env.acct.accepted.get(&ck).copied().unwrap_or(0);
            r.eval();
            if given > accepted {
                r.violation(
                    "child-response-delivered-more-than-once",
                    &format!(
                        "child {child} was handed a response for key {key} \
                         {given} times, but only {accepted} response(s) for \
                         it were accepted from the signer"
                    ),
                    env.witness(json!({
                        "child": child, "key": key, "given": given,
                        "accepted": accepted,
                    })),
                );
            }
        }
    }
}

fn pump(env: &mut Env, r: &mut Report, limit: usize) -> bool {
    let runs = env.w.pump(limit);
    for run in &runs {
        if let Some(f) = run.fatal() {
            r.violation(
                &format!("daemon-would-exit@{}",
                         run.name().split(':').next().unwrap_or("")),
                &format!("{}: {f}", run.name()),
                env.witness(json!({"task": run.name(), "fatal": f})),
            );
            env.corrupt = true;
            return false
        }
    }
    observe(env, r);
    true
}

static C14_NUMBERS: std::sync::atomic::AtomicBool =
    std::sync::atomic::AtomicBool::new(false);

/// Decodes the published TA manifest / CRL and checks the numbers.
fn observe_numbers(env: &mut Env, r: &mut Report, must_exist: bool) {
    let Some(ta) = env.w.ta_cert() else { return };
    let files = env.w.publisher_files();
    let view = kvh::rp::walk(&ta, &files);
    let Some(p) = view.cas.iter().find(|c| c.cert_uri == "TA") else {
        if must_exist {
            r.inconclusive(format!(
                "episode {} round {}: TA publication point not valid: {:?}",
                env.idx, env.round, view.issues
            ));
        }
        return
    };
    let mft_bytes = files.get(&p.mft_uri).cloned().unwrap_or_default();
    let crl_uri = p.mft_uri.replace(".mft", ".crl");
    let crl_bytes = files.get(&crl_uri).cloned().unwrap_or_default();
    let (Ok(mft_nr), Ok(crl_nr)) =
        (p.mft_number.parse::<u128>(), p.crl_number.parse::<u128>())
    else {
        r.inconclusive("unparsable manifest / CRL number");
        return
    };
    // Run as an auxiliary shard of the C14 check (`--c14-numbers 1`): the
    // published trust-anchor manifest and CRL carry the same number, also
    // after a signing session with an operator-chosen manifest number.
    if C14_NUMBERS.load(std::sync::atomic::Ordering::Relaxed) {
        r.eval();
        r.count("c14_ta_number_agreements", 1);
        r.nontrivial(format!("c14-ta-numbers|jump={}",
            env.acct.last_mft.map(|(_, n)| mft_nr > n + 1).unwrap_or(false)));
        if mft_nr != crl_nr {
            r.violation(
                "c14:ta-manifest-and-crl-number-differ",
                &format!("the published trust-anchor manifest has number                           {mft_nr}, the CRL it lists has number {crl_nr}"),
                json!({"episode": env.idx, "round": env.round, "log": env.log}),
            );
        }
    }
    for (what, bytes, nr, last) in [
        ("manifest", &mft_bytes, mft_nr, &mut env.acct.last_mft),
        ("crl", &crl_bytes, crl_nr, &mut env.acct.last_crl),
    ] {
        let h = util::fnv(bytes);
        match *last {
            Some((lh, _)) if lh == h => {}
            Some((_, ln)) => {
                r.eval();
                r.count("numbers_observed", 1);
                if nr <= ln {
                    let w = json!({"what": what, "previous": ln.to_string(),
                                   "now": nr.to_string()});
                    r.violation(
                        &format!("published-ta-{what}-number-not-increasing"),
                        &format!(
                            "a new TA {what} was published with number {nr} \
                             after number {ln}"
                        ),
                        json!({"episode": env.idx, "round": env.round,
                               "log": env.log, "case": w}),
                    );
                }
                *last = Some((h, nr));
            }
            None => {
                r.count("numbers_observed", 1);
                *last = Some((h, nr));
            }
        }
    }
    r.max("ta_number", mft_nr.min(u64::MAX as u128) as u64);
}

/// The proxy's objects must be those of the accepted response and the
/// publication server must hold exactly these.
fn check_published(env: &mut Env, r: &mut Report, delivered: &Value) {
    let p = proxy_value(&env.w);
    r.eval();
    if canon_s(&p["signer"]["objects"])
        != canon_s(&delivered["response"]["objects"])
    {
        r.violation(
            "proxy-objects-not-from-accepted-response",
            "the proxy's TA objects differ from those of the last accepted \
             signer response",
            env.witness(json!({
                "changed": diff_paths(&p["signer"]["objects"],
                                      &delivered["response"]["objects"]),
            })),
        );
        return
    }
    let Ok(proxy) = env.w.krill.ca_manager().get_trust_anchor_proxy() else {
        return
    };
    let Ok(elements) = proxy.get_trust_anchor_objects()
        .and_then(|o| o.publish_elements()) else { return };
    let expected: BTreeMap<String, u64> = elements.iter().map(|f| {
        (f.uri.to_string(), util::fnv(&f.base64.to_bytes()))
    }).collect();
    let have: BTreeMap<String, u64> = env.w.krill.repo_manager()
        .get_publisher_details(world::h("ta").convert())
        .map(|d| d.current_files.iter().map(|f| {
            (f.uri.to_string(), util::fnv(&f.base64.to_bytes()))
        }).collect()).unwrap_or_default();
    r.eval();
    if expected != have {
        r.violation(
            "published-ta-objects-not-from-accepted-response",
            &format!(
                "after synchronisation the publication server holds {:?} \
                 for the TA, the accepted response has {:?}",
                have.keys().collect::<Vec<_>>(),
                expected.keys().collect::<Vec<_>>()
            ),
            env.witness(json!({"have": have, "expected": expected})),
        );
    }
}

//------------ one round -----------------------------------------------------

fn child_activity(env: &mut Env, r: &mut Report, rng: &mut Rng) -> bool {
    if env.children.len() < env.max_children && rng.chance(1, 3) {
        if let Err(e) = env.add_child() {
            r.inconclusive(format!("episode {}: {e}", env.idx));
            return false
        }
    }
    for c in env.children.clone() {
        let roles = key_roles(&env.w, &c);
        let state = roles.classes.values().next().map(|x| x.1)
            .unwrap_or("none");
        match state {
            "active" if rng.chance(1, 2) => {
                match env.w.keyroll_init(&c) {
                    Ok(()) => {
                        env.note(format!("{c}: key roll init"));
                        r.count("child_op_roll_init", 1);
                    }
                    Err(e) => env.note(format!("{c}: roll init failed: {e}")),
                }
            }
            "roll_new" if !env.legacy.contains(&c) && rng.chance(2, 3) => {
                match env.w.keyroll_activate(&c) {
                    Ok(()) => {
                        env.note(format!("{c}: key roll activate"));
                        r.count("child_op_roll_activate", 1);
                    }
                    Err(e) => env.note(format!("{c}: activate failed: {e}")),
                }
            }
            _ => {}
        }
    }
    pump(env, r, 80)
}

/// Re-initialises the signer (new storage, same TA key, manifest number
/// override >= current + 1) and tells the proxy; the former signer becomes
/// the impostor.
fn reinit_signer(env: &mut Env, r: &mut Report, rng: &mut Rng) -> bool {
    let cur = env.s1.number();
    let nr = cur + 1 + rng.below(40);
    env.generation += 1;
    let dir = env.dir.join(format!("s1-g{}", env.generation));
    let fresh = match Signer::new(&dir).and_then(|s| {
        s.init(&env.w, Some(env.ta_pem.clone()), Some(nr)).map(|_| s)
    }) {
        Ok(s) => s,
        Err(e) => {
            r.inconclusive(format!("signer re-initialisation failed: {e}"));
            return false
        }
    };
    r.eval();
    r.count("signer_reinitialisations", 1);
    let got = fresh.number();
    if got <= cur {
        r.violation(
            "reinitialised-signer-number-not-increasing",
            &format!(
                "signer re-initialised with ta_mft_nr_override {nr} starts \
                 at manifest number {got}; the former signer was at {cur}"
            ),
            env.witness(json!({"override": nr, "got": got, "previous": cur})),
        );
    }
    let info = match fresh.mgr.show() {
        Ok(i) => i,
        Err(e) => { r.inconclusive(format!("show: {e}")); return false }
    };
    if let Err(e) = env.w.krill.ca_manager().ta_proxy_signer_update(
        info, &env.w.actor, &env.w.krill
    ) {
        r.inconclusive(format!(
            "proxy refused the re-initialised signer (same TA key): {e}"
        ));
        return false
    }
    env.note(format!("signer re-initialised: number {cur} -> {got}"));
    env.forge_cache.borrow_mut().clear();
    env.reinit_done = true;
    env.legacy = env.children.iter().cloned().collect();
    let old = std::mem::replace(&mut env.s1, fresh);
    env.f_s1x = env.f_s1.take();
    env.f_s1 = env.s1.forger();
    if let Some(prev) = env.s1x.replace(old) {
        let _ = std::fs::remove_dir_all(&prev.dir);
    }
    // The new signer knows no issued certificates: the children will ask
    // again for the keys they hold.
    observe(env, r);
    true
}

fn second_pair_exchange(env: &mut Env, r: &mut Report) {
    let q2 = match make_request(&env.w2).or_else(|_| get_request(&env.w2)) {
        Ok(q) => q,
        Err(e) => { r.inconclusive(format!("pair 2 request: {e}")); return }
    };
    match env.s2.process(&q2, None) {
        Ok(Ok(y)) => {
            match deliver_response(&env.w2, &y) {
                Ok(Ok(())) => {
                    r.count("exchanges_completed_pair2", 1);
                    let _ = env.w2.pump(20);
                }
                other => r.inconclusive(format!(
                    "pair 2 honest response refused: {other:?}"
                )),
            }
            env.y = Some(y);
        }
        other => r.inconclusive(format!(
            "pair 2 honest request refused: {:?}",
            other.map(|x| x.map(|_| ()))
        )),
    }
    env.q2 = Some(q2);
}

fn round(env: &mut Env, r: &mut Report, rng: &mut Rng, args: &Args) -> bool {
    let full = !args.thorough() || env.round % 3 == 0 || env.round < 2;
    if env.log.len() > 60 {
        let cut = env.log.len() - 60;
        env.log.drain(..cut);
    }

    //--- child activity, optional signer re-initialisation (idle only)
    if env.round > 0 && !child_activity(env, r, rng) { return false }
    if env.round == 0 && !pump(env, r, 80) { return false }
    let reinit_den = args.extra_u64("reinit", 2);
    let reinit_from = args.extra_u64("reinit-from", 3);
    let revocation_pending = env.children.iter().any(|c| {
        !key_roles(&env.w, c).old.is_empty()
    }) || proxy_children(&env.w).0.iter().any(|t| t.2 == "Revocation");
    if env.round >= reinit_from && !env.reinit_done && !revocation_pending
        && rng.chance(1, reinit_den) && !reinit_signer(env, r, rng)
    {
        return false
    }
    if env.round == 0 || rng.chance(1, 2) || env.y.is_none() {
        second_pair_exchange(env, r);
    }

    //--- state: idle
    judge_requests(env, r, rng, "idle", full);
    judge_responses(env, r, rng, "idle", full);
    if env.corrupt { return false }

    //--- state: open
    let q = match make_request(&env.w) {
        Ok(q) => q,
        Err(e) => {
            r.inconclusive(format!(
                "episode {} round {}: make request failed: {e}",
                env.idx, env.round
            ));
            return false
        }
    };
    let nonce = nonce_of_req(&q);
    env.cur_req = Some(q.clone());
    observe(env, r);
    // one open request at a time
    {
        let before = proxy_digest(&env.w);
        r.eval();
        match make_request(&env.w) {
            Ok(q2) => {
                r.violation(
                    "second-request-made-while-one-is-open",
                    &format!(
                        "a second signer request (nonce {}) was made while \
                         {nonce} was open", nonce_of_req(&q2)
                    ),
                    env.witness(json!({"open": nonce})),
                );
                env.corrupt = true;
                return false
            }
            Err(e) => {
                r.nontrivial("api:make-request@open");
                let after = proxy_digest(&env.w);
                if canon_s(&after) != canon_s(&before) {
                    r.violation(
                        "refused-but-changed:proxy:make-request@open",
                        &format!("refused ({e}) but changed at {:?}",
                                 diff_paths(&before, &after)),
                        env.witness(json!({"error": e})),
                    );
                }
            }
        }
    }
    // thorough: a child may act while the request is open; the request the
    // signer gets is the one fetched afterwards
    let mut q = q;
    if args.thorough() && rng.chance(1, 4) {
        if !child_activity(env, r, rng) { return false }
        match get_request(&env.w) {
            Ok(q2) => {
                r.eval();
                if nonce_of_req(&q2) != nonce {
                    r.violation(
                        "open-request-nonce-changed",
                        "the open request changed its nonce",
                        env.witness(json!({"was": nonce,
                                           "now": nonce_of_req(&q2)})),
                    );
                }
                q = q2;
                env.cur_req = Some(q.clone());
            }
            Err(e) => {
                r.inconclusive(format!("get request: {e}"));
                return false
            }
        }
    }
    judge_requests(env, r, rng, "open", full);
    if env.corrupt { return false }

    //--- the honest signer run(s)
    let prev_nr = env.s1.number();
    let use_control_req = rng.chance(1, 4);
    let honest_req = if use_control_req {
        match env.resign_p1(&q, "request", 14) {
            Some(m) => { r.count("positive_controls", 1); m }
            None => q.clone(),
        }
    } else { q.clone() };
    // `--boundary-override 1` (off by default): once per episode the
    // operator-chosen number is the largest the API takes.
    let boundary = args.extra_u64("boundary-override", 0) == 1
        && env.round == 1 && prev_nr < u64::MAX;
    let nr_override = if boundary {
        Some(u64::MAX)
    } else if rng.chance(1, if C14_NUMBERS.load(
        std::sync::atomic::Ordering::Relaxed) { 2 } else { 4 })
        && prev_nr < u64::MAX - 64
    {
        Some(prev_nr + 1 + rng.below(30))
    } else { None };
    let resp = match env.s1.process(&honest_req, nr_override) {
        Ok(Ok(resp)) => resp,
        other => {
            r.inconclusive(format!(
                "episode {} round {}: signer refused the honest request \
                 (control={use_control_req}): {:?}",
                env.idx, env.round, other.map(|x| x.map(|_| ()))
            ));
            return false
        }
    };
    env.note(format!(
        "signer processed {nonce}: number {prev_nr} -> {} (override \
         {nr_override:?}), {} child requests",
        number_of_resp(&resp), req_triples(&q).len()
    ));
    r.eval();
    if nonce_of_resp(&resp) != nonce {
        r.violation(
            "response-nonce-differs-from-request",
            &format!("request {nonce}, response {}", nonce_of_resp(&resp)),
            env.witness(json!({"request": short(&q),
                               "response": short(&resp)})),
        );
    }
    r.eval();
    let want = req_triples(&q);
    let got = resp_triples(&resp);
    if want != got {
        r.violation(
            "responses-not-one-per-child-request",
            &format!(
                "the request carries {want:?}, the response answers {got:?}"
            ),
            env.witness(json!({"request": short(&q),
                               "response": short(&resp)})),
        );
    }
    r.eval();
    r.count("numbers_observed", 1);
    if number_of_resp(&resp) <= prev_nr {
        r.violation(
            if prev_nr == u64::MAX {
                "ta-number-wraps-after-maximal-override"
            } else { "signer-response-number-not-increasing" },
            &format!(
                "signer objects were at number {prev_nr}, the response has \
                 {} (override {nr_override:?})", number_of_resp(&resp)
            ),
            env.witness(json!({"previous": prev_nr,
                               "response": short(&resp)})),
        );
    }
    if nr_override.is_some() { r.count("number_overrides", 1); }
    if !want.is_empty() {
        r.distinct("exchange_shapes", format!(
            "children={}/kinds={:?}",
            want.iter().map(|t| &t.0).collect::<BTreeSet<_>>().len(),
            want.iter().map(|t| t.2.clone()).collect::<BTreeSet<_>>()
        ));
    }
    // the operator runs the signer a second time on the same request
    let mut delivered = resp.clone();
    let mut sibling = None;
    if rng.chance(1, 2) {
        let before_nr = env.s1.number();
        if let Ok(Ok(second)) = env.s1.process(&q, None) {
            r.eval();
            r.count("numbers_observed", 1);
            r.count("signer_second_runs", 1);
            if number_of_resp(&second) <= before_nr {
                r.violation(
                    if before_nr == u64::MAX {
                        "ta-number-wraps-after-maximal-override"
                    } else { "signer-response-number-not-increasing" },
                    &format!("second run: {before_nr} -> {}",
                             number_of_resp(&second)),
                    env.witness(json!({"previous": before_nr})),
                );
            }
            if rng.chance(1, 2) {
                sibling = Some(resp.clone());
                delivered = second;
            } else {
                sibling = Some(second);
            }
        }
    }
    let impostor = env.s1x.as_ref().and_then(|s| {
        s.process(&q, None).ok().and_then(|x| x.ok())
    });
    if impostor.is_none() { r.count("impostor_did_not_answer", 1); }
    env.hist.push(Exch {
        req: q.clone(), resp: delivered.clone(), sibling, impostor
    });
    env.cur_req = None;
    if env.hist.len() > 6 { env.hist.remove(0); }

    judge_responses(env, r, rng, "open", full);
    if env.corrupt { return false }

    //--- the children retry while the request is pending
    {
        let before = proxy_digest(&env.w);
        for c in env.children.clone() { env.w.schedule_sync(&c); }
        if !pump(env, r, 80) { return false }
        r.count("child_retries_while_pending", env.children.len() as u64);
        let after = proxy_digest(&env.w);
        let _ = (before, after);
        r.eval();
        if proxy_open_nonce(&env.w).as_deref() != Some(&nonce) {
            r.violation(
                "open-request-lost-during-child-retries",
                "the open request changed while children retried",
                env.witness(json!({})),
            );
        }
    }

    //--- honest delivery (sometimes as a positive control: same content
    //    signed again with the signer's real key)
    let mut to_deliver = delivered.clone();
    let mut control = false;
    if rng.chance(1, 4) {
        if let Some(m) = env.f_s1.as_ref()
            .and_then(|f| f.resign(&delivered, "response", 14))
        {
            to_deliver = m;
            control = true;
            r.count("positive_controls", 1);
        }
    }
    let (open_before, _) = proxy_children(&env.w);
    match deliver_response(&env.w, &to_deliver) {
        Ok(Ok(())) => {}
        other => {
            r.inconclusive(format!(
                "episode {} round {}: proxy refused the honest response \
                 (control={control}): {other:?}", env.idx, env.round
            ));
            return false
        }
    }
    r.count("exchanges_completed", 1);
    r.nontrivial(format!("honest:accepted@open:control={control}"));
    // bookkeeping + what the proxy now holds
    let triples = resp_triples(&delivered);
    for t in &triples {
        r.eval();
        if !env.acct.fresh.remove(t) {
            r.violation(
                "child-request-answered-without-new-request",
                &format!(
                    "a response for child {} key {} ({}) was accepted, but \
                     the child has not made that request since its last \
                     response", t.0, t.1, t.2
                ),
                env.witness(json!({"triple": t})),
            );
        }
        *env.acct.accepted.entry((t.0.clone(), t.1.clone())).or_insert(0)
            += 1;
    }
    {
        let (open_after, held) = proxy_children(&env.w);
        r.eval();
        if proxy_open_nonce(&env.w).is_some() {
            r.violation(
                "request-still-open-after-accepted-response",
                "the request is still open after its response was accepted",
                env.witness(json!({"nonce": nonce})),
            );
        }
        for t in &triples {
            r.eval();
            let want = &delivered["response"]["child_responses"][&t.0][&t.1];
            let have = held.get(&(t.0.clone(), t.1.clone()));
            if have.map(canon_s) != Some(canon_s(want)) {
                r.violation(
                    "accepted-response-not-held-for-its-child",
                    &format!(
                        "after acceptance the proxy does not hold the \
                         response for child {} key {}", t.0, t.1
                    ),
                    env.witness(json!({"triple": t})),
                );
            }
            if open_after.contains(t) {
                r.violation(
                    "answered-request-still-open",
                    &format!(
                        "the request of child {} for key {} is still open \
                         after its response was accepted", t.0, t.1
                    ),
                    env.witness(json!({"triple": t})),
                );
            }
        }
        // nothing else may have appeared
        let extra: Vec<_> = held.keys().filter(|ck| {
            !triples.iter().any(|t| t.0 == ck.0 && t.1 == ck.1)
                && env.acct.accepted.get(*ck).copied().unwrap_or(0)
                    <= env.acct.given.get(*ck).copied().unwrap_or(0)
        }).cloned().collect();
        r.eval();
        if !extra.is_empty() {
            r.violation(
                "response-held-that-no-accepted-message-carried",
                &format!("unexpected pending child responses {extra:?}"),
                env.witness(json!({"extra": extra})),
            );
        }
        let _ = open_before;
    }
    observe(env, r);

    //--- state: processed
    judge_responses(env, r, rng, "processed", full);
    if env.corrupt { return false }
    judge_requests(env, r, rng, "processed", full);
    if env.corrupt { return false }

    //--- background work: publication and the children fetch their answers
    if !pump(env, r, 120) { return false }
    for c in env.children.clone() { env.w.schedule_sync(&c); }
    if !pump(env, r, 120) { return false }
    // further retries must not be served again
    for _ in 0..2 {
        for c in env.children.clone() { env.w.schedule_sync(&c); }
        if !pump(env, r, 120) { return false }
    }
    for (ck, n) in env.acct.accepted.clone() {
        let given = env.acct.given.get(&ck).copied().unwrap_or(0);
        r.eval();
        if given < n {
            r.violation(
                "child-response-not-delivered",
                &format!(
                    "child {} key {}: {n} response(s) accepted from the \
                     signer, {given} handed to the child after the child \
                     synchronised four times", ck.0, ck.1
                ),
                env.witness(json!({"child": ck.0, "key": ck.1,
                                   "accepted": n, "given": given})),
            );
        }
    }
    for t in &triples {
        let roles = key_roles(&env.w, &t.0);
        r.eval();
        let stuck = match t.2.as_str() {
            "Issuance" => roles.pending.contains(&t.1),
            "Revocation" => roles.old.contains(&t.1),
            _ => false,
        };
        if stuck {
            r.violation(
                "child-did-not-receive-its-response",
                &format!(
                    "child {} still waits for the {} of key {} after the \
                     response was handed over", t.0, t.2, t.1
                ),
                env.witness(json!({"triple": t})),
            );
        }
    }
    check_published(env, r, &delivered);
    observe_numbers(env, r, true);
    r.max("children", env.children.len() as u64);
    r.max("rounds_in_episode", env.round + 1);
    true
}

//------------ main ----------------------------------------------------------

fn episode(r: &mut Report, args: &Args, idx: u64, seed: u64) {
    let mut rng = Rng::new(seed);
    let mut env = match Env::create(args, idx, &mut rng) {
        Ok(e) => e,
        Err(e) => {
            r.inconclusive(format!("episode {idx}: set-up failed: {e}"));
            return
        }
    };
    r.count("episodes", 1);
    let rounds = if args.thorough() { rng.range(6, 14) } else { 6 };
    for i in 0..rounds {
        env.round = i;
        let ok = match util::catch(|| round(&mut env, r, &mut rng, args)) {
            Ok(ok) => ok,
            Err(panic) => {
                r.inconclusive(format!(
                    "episode {idx} round {i}: harness panic: {panic}"
                ));
                false
            }
        };
        r.count("rounds", 1);
        if !ok || !r.within_budget() { break }
    }
}

fn main() {
    let args = Args::parse();
    let mut r = Report::new("C15", &args);
    let c14 = args.extra_u64("c14-numbers", 0) == 1;
    C14_NUMBERS.store(c14, std::sync::atomic::Ordering::Relaxed);
    if args.replay.is_some() {
        println!("replay: C15 witnesses are re-run by seed: use --seed/--shard");
        r.write();
        return
    }
    r.note("setup", json!(
        "external TrustAnchorSignerManager + proxy-only krill instance \
         (public API); second pair for cross-wiring"
    ));
    let mut idx = args.shard;
    loop {
        let seed = args.shard_seed().wrapping_mul(7919).wrapping_add(idx);
        episode(&mut r, &args, idx, seed);
        idx += args.nshards;
        if !r.within_budget() { break }
        if r.violations.len() >= 6 { break }
        let _ = std::fs::write(args.work.join("partial.json"),
            serde_json::to_vec(&r.to_json()).unwrap());
    }
    r.write();
}
