//! C07 — commands are atomic, serialised per entity and completely audited.
//!
//! (a) A toy aggregate (state = append-only list of unique ids) on the bare
//!     `AggregateStore`, driven by 2-8 real threads through one or two store
//!     instances over the same storage (disk and memory back-ends), with
//!     the verif yield hook perturbing the schedule. Every acknowledgement
//!     and every read is recorded at the client boundary and checked
//!     against the final order.
//! (b) The real `CertAuth` (ROA deltas with globally unique prefixes,
//!     rejects, no-ops, concurrent readers) and the publication server's
//!     write-ahead log (concurrent publishers) through the managers.
//! (c) Directed pre-emption (one context switch per run): a background
//!     task of the real scheduler code (the daily snapshot job, an RRDP
//!     update) is parked at its k-th yield point, for every k, while a
//!     complete API command + repository synchronisation runs on another
//!     thread; afterwards the running instance and an instance opened
//!     afresh on the same directory must show the same configuration and
//!     published content, with the acknowledged change in it exactly once.

use std::collections::{BTreeMap, BTreeSet};
use std::fmt;
use std::str::FromStr;
use std::sync::{Arc, Mutex};
use std::sync::atomic::{AtomicU64, Ordering};
use kvh::util::{Args, Report, Rng};
use kvh::world::{h, World, WorldCfg};
use krill::api::history::{CommandHistoryCriteria, CommandSummary};
use krill::commons::actor::Actor;
use krill::commons::eventsourcing::{
    Aggregate, AggregateStore, AggregateStoreError, CommandDetails, Event,
    InitCommandDetails, InitEvent, SentCommand, SentInitCommand,
    WithStorableDetails,
};
use krill::commons::storage::{Ident, StorageSystem};
use rpki::ca::idexchange::MyHandle;
use serde::{Deserialize, Serialize};
use serde_json::{json, Value};

//============ toy aggregate ==================================================

#[derive(Clone, Deserialize, Eq, PartialEq, Serialize)]
struct LogInit;
impl InitEvent for LogInit {}
impl fmt::Display for LogInit {
    fn fmt(&self, f: &mut fmt::Formatter) -> fmt::Result { write!(f, "init") }
}

#[derive(Clone, Deserialize, Eq, PartialEq, Serialize)]
enum LogEvent { Appended(u64), Poison(u64) }
impl Event for LogEvent {}
impl fmt::Display for LogEvent {
    fn fmt(&self, f: &mut fmt::Formatter) -> fmt::Result {
        match self {
            LogEvent::Appended(i) => write!(f, "appended {i}"),
            LogEvent::Poison(i) => write!(f, "poison {i}"),
        }
    }
}

#[derive(Clone, Deserialize, Eq, PartialEq, Serialize)]
enum LogStorable { Init, Append(u64), Reject(u64), Noop, PreSaveFail(u64) }
impl fmt::Display for LogStorable {
    fn fmt(&self, f: &mut fmt::Formatter) -> fmt::Result {
        match self {
            LogStorable::Init => write!(f, "init"),
            LogStorable::Append(i) => write!(f, "append {i}"),
            LogStorable::Reject(i) => write!(f, "reject {i}"),
            LogStorable::Noop => write!(f, "noop"),
            LogStorable::PreSaveFail(i) => write!(f, "presavefail {i}"),
        }
    }
}
impl WithStorableDetails for LogStorable {
    fn summary(&self) -> CommandSummary {
        // one label per kind, so that history filters have something to do
        let label = match self {
            LogStorable::Init => "log-init",
            LogStorable::Append(_) => "log-append",
            LogStorable::Reject(_) => "log-reject",
            LogStorable::Noop => "log-noop",
            LogStorable::PreSaveFail(_) => "log-presave",
        };
        CommandSummary::new(label, self)
    }
    fn make_init() -> Self { LogStorable::Init }
}

#[derive(Clone, Debug)]
struct LogInitDetails;
impl fmt::Display for LogInitDetails {
    fn fmt(&self, f: &mut fmt::Formatter) -> fmt::Result { write!(f, "init") }
}
impl InitCommandDetails for LogInitDetails {
    type StorableDetails = LogStorable;
    fn store(&self) -> LogStorable { LogStorable::Init }
}

#[derive(Clone, Deserialize, Eq, PartialEq, Serialize)]
enum LogCmd { Append(u64), Reject(u64), Noop, PreSaveFail(u64) }
impl fmt::Display for LogCmd {
    fn fmt(&self, f: &mut fmt::Formatter) -> fmt::Result { self.store().fmt(f) }
}
impl CommandDetails for LogCmd {
    type Event = LogEvent;
    type StorableDetails = LogStorable;
    fn store(&self) -> LogStorable {
        match self {
            LogCmd::Append(i) => LogStorable::Append(*i),
            LogCmd::Reject(i) => LogStorable::Reject(*i),
            LogCmd::Noop => LogStorable::Noop,
            LogCmd::PreSaveFail(i) => LogStorable::PreSaveFail(*i),
        }
    }
}

#[derive(Clone, Debug)]
struct LogError(String);
impl fmt::Display for LogError {
    fn fmt(&self, f: &mut fmt::Formatter) -> fmt::Result { self.0.fmt(f) }
}
impl std::error::Error for LogError {}
impl From<AggregateStoreError> for LogError {
    fn from(e: AggregateStoreError) -> Self { LogError(format!("store: {e}")) }
}

#[derive(Clone, Deserialize, Serialize)]
struct Log { id: MyHandle, version: u64, items: Vec<u64> }

impl Aggregate for Log {
    type InitCommand = SentInitCommand<LogInitDetails>;
    type InitEvent = LogInit;
    type Command = SentCommand<LogCmd>;
    type Event = LogEvent;
    type StorableCommandDetails = LogStorable;
    type Error = LogError;
    type Context<'a> = ();

    fn init(id: &MyHandle, _e: LogInit) -> Self {
        Log { id: id.clone(), version: 1, items: vec![] }
    }
    fn process_init_command(
        _c: Self::InitCommand, _ctx: (),
    ) -> Result<LogInit, LogError> { Ok(LogInit) }
    fn version(&self) -> u64 { self.version }
    fn increment_version(&mut self) { self.version += 1 }
    fn apply(&mut self, e: LogEvent) {
        match e {
            LogEvent::Appended(i) | LogEvent::Poison(i) => self.items.push(i),
        }
    }
    fn process_command(
        &self, c: Self::Command, _ctx: (),
    ) -> Result<Vec<LogEvent>, LogError> {
        match c.into_details() {
            LogCmd::Append(i) => Ok(vec![LogEvent::Appended(i)]),
            LogCmd::Reject(i) => Err(LogError(format!("rejected {i}"))),
            LogCmd::Noop => Ok(vec![]),
            LogCmd::PreSaveFail(i) => Ok(vec![LogEvent::Poison(i)]),
        }
    }
    fn pre_save_events(
        &self, events: &[LogEvent], _ctx: (),
    ) -> Result<(), LogError> {
        if events.iter().any(|e| matches!(e, LogEvent::Poison(_))) {
            Err(LogError("pre-save listener failed".into()))
        } else { Ok(()) }
    }
}

//============ client-boundary records ========================================

#[derive(Clone, Debug, Serialize)]
struct Rec {
    thread: usize,
    seq: usize,
    entity: String,
    kind: &'static str,
    id: u64,
    ok: bool,
    /// version and list of the state returned (acks and reads)
    version: Option<u64>,
    items: Option<Vec<u64>>,
    err: Option<String>,
}

static SITE_LOG: Mutex<Vec<(u64, &'static str)>> = Mutex::new(Vec::new());
static YIELD_SEED: AtomicU64 = AtomicU64::new(1);
static YIELD_HOT: AtomicU64 = AtomicU64::new(0);

thread_local! {
    static TL_RNG: std::cell::RefCell<Option<Rng>> =
        const { std::cell::RefCell::new(None) };
    static TL_ID: std::cell::Cell<u64> = const { std::cell::Cell::new(0) };
}

/// Directed mode: the thread with id `victim` is parked when it passes its
/// `target`-th yield point and stays there until released.
struct Directed { victim: u64, target: u64, count: u64, parked: bool,
                  released: bool, site: &'static str }
static DIRECTED: Mutex<Option<Directed>> = Mutex::new(None);
static DIRECTED_CV: std::sync::Condvar = std::sync::Condvar::new();

fn directed_point(tid: u64, site: &'static str) -> bool {
    let mut g = match DIRECTED.lock() { Ok(g) => g, Err(_) => return false };
    let Some(d) = g.as_mut() else { return false };
    if d.victim != tid { return true } // directed mode: no random delays
    d.count += 1;
    if d.count != d.target { return true }
    d.parked = true;
    d.site = site;
    DIRECTED_CV.notify_all();
    let deadline = std::time::Instant::now() + std::time::Duration::from_secs(20);
    loop {
        let released = g.as_ref().map(|d| d.released).unwrap_or(true);
        if released || std::time::Instant::now() > deadline { break }
        let (g2, _) = DIRECTED_CV.wait_timeout(
            g, std::time::Duration::from_millis(100)).unwrap();
        g = g2;
    }
    true
}

fn install_yield_hook() {
    krill::verif::set_yield_hook(Some(Arc::new(|site: &'static str| {
        let tid = TL_ID.with(|t| t.get());
        if directed_point(tid, site) { return }
        if site == "agg.before_process_command"
            || site == "wal.before_process_command"
        {
            if let Ok(mut l) = SITE_LOG.lock() { l.push((tid, site)); }
        }
        let hot = YIELD_HOT.load(Ordering::Relaxed) == 1
            && (site.ends_with("before_lock") || site.contains("cache_update")
                || site.contains("between_locks"));
        let x = TL_RNG.with(|r| {
            let mut r = r.borrow_mut();
            if r.is_none() {
                *r = Some(Rng::new(
                    YIELD_SEED.load(Ordering::Relaxed) ^ (tid << 17)
                ));
            }
            r.as_mut().unwrap().below(100)
        });
        let (p_yield, p_sleep) = if hot { (40, 35) } else { (20, 10) };
        if x < p_sleep {
            std::thread::sleep(std::time::Duration::from_micros(50 + x * 40));
        } else if x < p_sleep + p_yield {
            std::thread::yield_now();
        }
    })));
}

//============ toy history =====================================================

fn toy_history(
    r: &mut Report, args: &Args, case: u64, rng: &mut Rng,
) -> Option<(String, String, Value)> {
    let memory = rng.chance(1, 2);
    let threads = rng.range(2, 8) as usize;
    let per_thread = rng.range(3, 10) as usize;
    let entities = rng.range(1, 3) as usize;
    let two_stores = rng.chance(1, 2);
    let history_cache = rng.chance(1, 2);
    YIELD_SEED.store(rng.next(), Ordering::Relaxed);
    YIELD_HOT.store(case % 2, Ordering::Relaxed);
    if let Ok(mut l) = SITE_LOG.lock() { l.clear() }

    let dir = args.work.join(format!("toy{case}"));
    let _ = std::fs::remove_dir_all(&dir);
    let storage = Arc::new(if memory {
        StorageSystem::new_memory(Some(case ^ args.shard_seed()))
    } else {
        std::fs::create_dir_all(&dir).unwrap();
        StorageSystem::new_disk(dir.clone())
    });
    let ns = Ident::from_str("toylog").unwrap();
    let store_a = Arc::new(AggregateStore::<Log>::create(
        &storage, ns, history_cache).expect("store"));
    let store_b = if two_stores {
        Arc::new(AggregateStore::<Log>::create(&storage, ns, false)
            .expect("store b"))
    } else { store_a.clone() };
    let actor = Actor::user("verif-client");
    let expected_actor = {
        use krill::commons::eventsourcing::Command;
        SentCommand::new(
            MyHandle::from_str("x").unwrap(), None, LogCmd::Noop, &actor
        ).actor().to_string()
    };
    let handles: Vec<MyHandle> = (0..entities)
        .map(|i| MyHandle::from_str(&format!("e{i}")).unwrap()).collect();
    // creation is a command too: the first entity is created by all
    // threads at once (through both store instances); exactly one of them
    // may be told that it created the entity
    let mut created_ok = 0usize;
    let mut create_errs: Vec<String> = vec![];
    for (i, hdl) in handles.iter().enumerate() {
        if i > 0 {
            store_a.add(SentInitCommand::new(hdl.clone(), LogInitDetails, &actor))
                .expect("add");
            continue
        }
        let barrier = Arc::new(std::sync::Barrier::new(threads));
        let mut cj = vec![];
        for t in 0..threads {
            let store = if t % 2 == 1 { store_b.clone() } else { store_a.clone() };
            let hdl = hdl.clone();
            let actor = actor.clone();
            let barrier = barrier.clone();
            cj.push(std::thread::spawn(move || {
                TL_ID.with(|x| x.set(t as u64 + 1));
                barrier.wait();
                store.add(SentInitCommand::new(hdl, LogInitDetails, &actor))
                    .map(|a| a.version).map_err(|e| e.to_string())
            }));
        }
        for j in cj {
            match j.join() {
                Ok(Ok(_)) => created_ok += 1,
                Ok(Err(e)) => create_errs.push(e),
                Err(_) => create_errs.push("panic".into()),
            }
        }
    }
    r.count("concurrent_creations", 1);
    if created_ok != 1 {
        return Some((
            "entity-created-more-than-once".into(),
            format!("{threads} threads created entity e0 at the same time: \
                     {created_ok} of them were told they created it \
                     (errors: {:?})", create_errs.iter().take(3).collect::<Vec<_>>()),
            json!({"memory": memory, "threads": threads,
                   "two_stores": two_stores}),
        ))
    }
    if let Ok(mut l) = SITE_LOG.lock() { l.clear() }
    let desc = json!({"memory": memory, "threads": threads,
        "per_thread": per_thread, "entities": entities,
        "two_stores": two_stores, "history_cache": history_cache});
    kvh::util::mark_inflight(&args.out, &json!({
        "what": "toy history", "desc": desc, "exit_is_violation": true,
        "signature": "process-exit:command-key-already-exists"
    }));

    let recs: Arc<Mutex<Vec<Rec>>> = Arc::new(Mutex::new(vec![]));
    let next_id = Arc::new(AtomicU64::new(1));
    let mut joins = vec![];
    for t in 0..threads {
        let store = if t % 2 == 1 { store_b.clone() } else { store_a.clone() };
        let handles = handles.clone();
        let recs = recs.clone();
        let next_id = next_id.clone();
        let mut trng = Rng::new(rng.next());
        let actor = actor.clone();
        joins.push(std::thread::spawn(move || {
            TL_ID.with(|x| x.set(t as u64 + 1));
            for seq in 0..per_thread {
                let hdl = trng.pick(&handles).clone();
                let choice = trng.weighted(&[50, 12, 10, 8, 14, 5, 8]);
                let id = next_id.fetch_add(1, Ordering::SeqCst);
                let (kind, cmd): (&'static str, Option<LogCmd>) = match choice {
                    0 => ("append", Some(LogCmd::Append(id))),
                    1 => ("reject", Some(LogCmd::Reject(id))),
                    2 => ("noop", Some(LogCmd::Noop)),
                    3 => ("presavefail", Some(LogCmd::PreSaveFail(id))),
                    4 => ("read", None),
                    5 => ("snapshot", None),
                    _ => ("history", None),
                };
                if kind == "history" {
                    // the history view, read while others write and read:
                    // every listing is 1..n without gaps or repeats
                    let res = store.command_history(
                        &hdl, CommandHistoryCriteria::default());
                    let (ok, err) = match res {
                        Ok(h) => {
                            let vs: Vec<u64> = h.commands.iter()
                                .map(|c| c.version).collect();
                            let want: Vec<u64> = (1..=vs.len() as u64).collect();
                            if vs == want && h.total == vs.len() {
                                (true, None)
                            } else {
                                (false, Some(format!(
                                    "history lists versions {vs:?} total {}",
                                    h.total)))
                            }
                        }
                        Err(e) => (false, Some(format!("history fails: {e}"))),
                    };
                    recs.lock().unwrap().push(Rec {
                        thread: t, seq, entity: hdl.to_string(), kind, id,
                        ok, version: None, items: None, err,
                    });
                    continue
                }
                let res = match (&cmd, kind) {
                    (Some(c), _) => store.command(SentCommand::new(
                        hdl.clone(), None, c.clone(), &actor)),
                    (None, "snapshot") => store.save_snapshot(&hdl),
                    _ => store.get_latest(&hdl),
                };
                let rec = match res {
                    Ok(a) => Rec {
                        thread: t, seq, entity: hdl.to_string(), kind, id,
                        ok: true, version: Some(a.version),
                        items: Some(a.items.clone()), err: None,
                    },
                    Err(e) => Rec {
                        thread: t, seq, entity: hdl.to_string(), kind, id,
                        ok: false, version: None, items: None,
                        err: Some(e.to_string()),
                    },
                };
                recs.lock().unwrap().push(rec);
            }
        }));
    }
    let mut thread_panicked = false;
    for j in joins { if j.join().is_err() { thread_panicked = true } }
    let recs = recs.lock().unwrap().clone();
    let wit = |extra: Value| json!({"desc": desc, "records": recs.iter()
        .take(80).collect::<Vec<_>>(), "extra": extra});
    if thread_panicked {
        return Some(("panic-in-store".into(),
                     "a worker thread panicked inside the store".into(),
                     wit(json!({}))))
    }
    if let Some(x) = recs.iter().find(|x| x.kind == "history" && !x.ok) {
        return Some(("concurrent-history-read-wrong".into(),
            format!("thread {} entity {}: {}", x.thread, x.entity,
                    x.err.clone().unwrap_or_default()), wit(json!({}))))
    }
    r.count("concurrent_history_reads",
            recs.iter().filter(|x| x.kind == "history").count() as u64);

    // interleaving signature: order in which threads entered the critical
    // section
    let sig: Vec<u64> = SITE_LOG.lock().map(|l| l.iter().map(|x| x.0).collect())
        .unwrap_or_default();
    let switches = sig.windows(2).filter(|w| w[0] != w[1]).count();
    if switches >= 2 {
        r.nontrivial(format!("ilv:{:016x}", kvh::util::fnv(
            &sig.iter().flat_map(|x| x.to_le_bytes()).collect::<Vec<_>>())));
    }
    r.count("thread_switches_in_critical_sections", switches as u64);

    // ---- the checker ------------------------------------------------------
    let fresh = AggregateStore::<Log>::create(&storage, ns, false).expect("fresh");
    let kv = storage.open(ns).expect("kv");
    for hdl in &handles {
        let ent = hdl.to_string();
        let mine: Vec<&Rec> = recs.iter().filter(|x| x.entity == ent).collect();
        let final_live = match store_a.get_latest(hdl) {
            Ok(a) => a, Err(e) => return Some(("final-read-failed".into(),
                e.to_string(), wit(json!({})))),
        };
        let fin = &final_live.items;
        r.eval();
        // replay from storage by a fresh instance agrees with the live one
        match fresh.get_latest(hdl) {
            Ok(f) => {
                if f.items != *fin || f.version != final_live.version {
                    return Some(("live-state-differs-from-stored".into(),
                        format!("{ent}: live v{} {:?} vs stored v{} {:?}",
                            final_live.version, fin, f.version, f.items),
                        wit(json!({}))))
                }
            }
            Err(e) => return Some(("stored-state-does-not-load".into(),
                format!("{ent}: {e}"), wit(json!({})))),
        }
        let store_b_view = store_b.get_latest(hdl).ok();
        if let Some(b) = store_b_view {
            if b.items != *fin {
                return Some(("second-instance-diverges".into(),
                    format!("{ent}: {:?} vs {:?}", b.items, fin), wit(json!({}))))
            }
        }
        let mut appends_ok = 0u64;
        let mut rejects = 0u64;
        let mut seen_versions: BTreeMap<u64, u64> = BTreeMap::new();
        for x in &mine {
            r.count("records_checked", 1);
            match (x.kind, x.ok) {
                ("append", true) => {
                    appends_ok += 1;
                    r.count("acks_checked", 1);
                    let n = fin.iter().filter(|i| **i == x.id).count();
                    if n != 1 {
                        return Some((
                            if n == 0 { "acknowledged-command-lost" }
                            else { "command-applied-twice" }.into(),
                            format!("{ent}: id {} occurs {n} times in {fin:?}", x.id),
                            wit(json!({"record": x}))))
                    }
                    let items = x.items.as_ref().unwrap();
                    if items.last() != Some(&x.id) {
                        return Some(("ack-state-not-after-own-command".into(),
                            format!("{ent}: ack of {} returned {items:?}", x.id),
                            wit(json!({"record": x}))))
                    }
                    if let Some(prev) = seen_versions.insert(
                        x.version.unwrap(), x.id)
                    {
                        return Some(("same-version-acknowledged-twice".into(),
                            format!("{ent}: version {} for ids {prev} and {}",
                                    x.version.unwrap(), x.id),
                            wit(json!({"record": x}))))
                    }
                }
                ("append", false) => {
                    return Some(("append-refused".into(),
                        format!("{ent}: {:?}", x.err), wit(json!({"record": x}))))
                }
                ("reject", false) => { rejects += 1 }
                ("reject", true) | ("presavefail", true) => {
                    return Some(("failing-command-acknowledged".into(),
                        format!("{ent}: {} {}", x.kind, x.id),
                        wit(json!({"record": x}))))
                }
                ("presavefail", false) => {
                    r.count("presave_failures", 1);
                    if fin.contains(&x.id) {
                        return Some(("pre-save-failure-left-a-trace".into(),
                            format!("{ent}: id {} in {fin:?}", x.id),
                            wit(json!({"record": x}))))
                    }
                }
                _ => {}
            }
            // every returned state is a prefix of the final order
            if let Some(items) = &x.items {
                r.count("reads_checked", 1);
                if items.len() > fin.len() || fin[..items.len()] != items[..] {
                    return Some(("state-not-a-prefix-of-final-order".into(),
                        format!("{ent}: {} by thread {} saw {items:?}, final \
                                 {fin:?}", x.kind, x.thread),
                        wit(json!({"record": x}))))
                }
            }
        }
        // per thread: versions never go backwards (program order)
        for t in 0..threads {
            let mut last = 0u64;
            for x in mine.iter().filter(|x| x.thread == t) {
                if let Some(v) = x.version {
                    if v < last {
                        return Some(("version-went-backwards-for-a-client".into(),
                            format!("{ent}: thread {t}: {last} then {v}"),
                            wit(json!({"record": x}))))
                    }
                    last = v;
                }
            }
        }
        // exactly one consecutive version per accepted or rejected command
        let expect_version = 1 + appends_ok + rejects;
        if final_live.version != expect_version {
            return Some(("version-count-mismatch".into(),
                format!("{ent}: final version {} but 1 + {appends_ok} accepted \
                         + {rejects} rejected = {expect_version}",
                        final_live.version), wit(json!({}))))
        }
        if fin.len() as u64 != appends_ok {
            return Some(("unacknowledged-item-in-state".into(),
                format!("{ent}: {} items, {appends_ok} acknowledged", fin.len()),
                wit(json!({}))))
        }
        // the stored commands are command-0 .. command-(v-1), no gaps
        let scope = Ident::from_str(&ent).unwrap();
        let mut keys: Vec<u64> = kv.keys(Some(scope), "command-")
            .unwrap_or_default().iter().filter_map(|k| {
                k.as_str().strip_prefix("command-")?
                    .strip_suffix(".json")?.parse().ok()
            }).collect();
        keys.sort();
        let want: Vec<u64> = (0..expect_version).collect();
        if keys != want {
            return Some(("audit-log-not-contiguous".into(),
                format!("{ent}: stored commands {keys:?}, expected 0..{}",
                        expect_version), wit(json!({}))))
        }
        // the history API lists every recorded command in order with actor
        match store_a.command_history(hdl, CommandHistoryCriteria::default()) {
            Err(e) => return Some(("history-fails".into(), e.to_string(),
                                   wit(json!({})))),
            Ok(hst) => {
                r.count("history_checks", 1);
                let versions: Vec<u64> = hst.commands.iter()
                    .map(|c| c.version).collect();
                let want: Vec<u64> = (1..expect_version).collect();
                let errors = hst.commands.iter().filter(|c| {
                    serde_json::to_value(&c.effect).map(|v| {
                        v.to_string().contains("error")
                            || v.to_string().contains("rejected")
                    }).unwrap_or(false)
                }).count() as u64;
                if versions != want || hst.total as u64 != expect_version - 1
                    || hst.commands.iter().any(|c| c.actor != expected_actor)
                {
                    return Some(("history-incomplete-or-out-of-order".into(),
                        format!("{ent}: history versions {versions:?} total {} \
                                 expected {want:?}", hst.total), wit(json!({}))))
                }
                if errors != rejects {
                    return Some(("history-error-records-mismatch".into(),
                        format!("{ent}: {errors} error records, {rejects} \
                                 rejected commands"), wit(json!({}))))
                }
                // filtered and paged listings: for every filter the pages
                // partition exactly the matching records, in order, and
                // every page reports the same total
                let mid = expect_version / 2;
                let filters: Vec<(&str, CommandHistoryCriteria)> = vec![
                    ("all", CommandHistoryCriteria::default()),
                    ("only-append", CommandHistoryCriteria {
                        label_includes: Some(vec!["log-append".into()]),
                        ..Default::default() }),
                    ("no-append", CommandHistoryCriteria {
                        label_excludes: Some(vec!["log-append".into()]),
                        ..Default::default() }),
                    ("after-version", CommandHistoryCriteria {
                        after_version: Some(mid), ..Default::default() }),
                ];
                for (fname, crit) in filters {
                    let want: Vec<u64> = hst.commands.iter().filter(|c| {
                        let l = c.summary.label.as_str();
                        match fname {
                            "only-append" => l == "log-append",
                            "no-append" => l != "log-append",
                            "after-version" => c.version > mid,
                            _ => true,
                        }
                    }).map(|c| c.version).collect();
                    for rows in 1..=3usize {
                        let mut got: Vec<u64> = vec![];
                        let mut offset = 0usize;
                        loop {
                            let page = match store_a.command_history(hdl,
                                CommandHistoryCriteria {
                                    offset, rows_limit: Some(rows),
                                    ..crit.clone()
                                })
                            {
                                Ok(p) => p,
                                Err(e) => return Some(("history-fails".into(),
                                    e.to_string(), wit(json!({})))),
                            };
                            r.count("history_pages_checked", 1);
                            if page.total != want.len()
                                || page.commands.len() > rows
                            {
                                return Some((
                                    "history-page-total-or-size-wrong".into(),
                                    format!("{ent}: filter {fname} rows {rows} \
                                        offset {offset}: total {} (expected {}), \
                                        {} records", page.total, want.len(),
                                        page.commands.len()), wit(json!({}))))
                            }
                            if page.commands.is_empty() { break }
                            got.extend(page.commands.iter().map(|c| c.version));
                            offset += rows;
                            if offset > want.len() + rows { break }
                        }
                        if got != want {
                            return Some((
                                "history-pages-do-not-partition-the-list".into(),
                                format!("{ent}: filter {fname}, {rows} rows per \
                                    page: pages give versions {got:?}, the \
                                    matching records are {want:?}"),
                                wit(json!({}))))
                        }
                    }
                }
            }
        }
    }
    r.count("toy_histories", 1);
    r.distinct("toy_configs", format!("{memory}/{two_stores}/{history_cache}"));
    if r.samples.len() < 2 {
        r.sample(json!({"desc": desc, "records": recs.iter().take(10)
            .collect::<Vec<_>>(), "critical_section_order": sig.iter()
            .take(30).collect::<Vec<_>>()}));
    }
    drop(fresh);
    let _ = std::fs::remove_dir_all(&dir);
    None
}


//============ toy write-ahead-log history ====================================

mod waltoy {
    use std::fmt;
    use krill::commons::eventsourcing::{
        WalChange, WalCommand, WalSet, WalStoreError, WalSupport,
    };
    use rpki::ca::idexchange::MyHandle;
    use serde::{Deserialize, Serialize};

    #[derive(Clone, Debug, Deserialize, Eq, PartialEq, Serialize)]
    pub struct WLog { pub revision: u64, pub items: Vec<u64> }

    #[derive(Clone, Debug)]
    pub enum WKind { Append(u64), Reject(u64), Noop }

    #[derive(Clone, Debug)]
    pub struct WCmd { pub handle: MyHandle, pub kind: WKind }
    impl fmt::Display for WCmd {
        fn fmt(&self, f: &mut fmt::Formatter) -> fmt::Result {
            write!(f, "{:?}", self.kind)
        }
    }
    impl WalCommand for WCmd {
        fn handle(&self) -> &MyHandle { &self.handle }
    }

    #[derive(Clone, Debug, Deserialize, Eq, PartialEq, Serialize)]
    pub struct Pushed(pub u64);
    impl fmt::Display for Pushed {
        fn fmt(&self, f: &mut fmt::Formatter) -> fmt::Result {
            write!(f, "pushed {}", self.0)
        }
    }
    impl WalChange for Pushed {}

    #[derive(Debug)]
    pub struct WErr(pub String);
    impl fmt::Display for WErr {
        fn fmt(&self, f: &mut fmt::Formatter) -> fmt::Result { f.write_str(&self.0) }
    }
    impl std::error::Error for WErr {}
    impl From<WalStoreError> for WErr {
        fn from(e: WalStoreError) -> Self { WErr(format!("store: {e}")) }
    }

    impl WalSupport for WLog {
        type Command = WCmd;
        type Change = Pushed;
        type Error = WErr;
        fn revision(&self) -> u64 { self.revision }
        fn apply(&mut self, set: WalSet<Self>) {
            for Pushed(v) in set.into_changes() { self.items.push(v) }
            self.revision += 1;
        }
        fn process_command(&self, c: WCmd) -> Result<Vec<Pushed>, WErr> {
            match c.kind {
                WKind::Append(i) => Ok(vec![Pushed(i)]),
                WKind::Reject(i) => Err(WErr(format!("rejected {i}"))),
                WKind::Noop => Ok(vec![]),
            }
        }
    }
}

/// The write-ahead-log store (the publication server's content log uses it)
/// with a toy entity: every accepted command is one change set and takes
/// exactly one revision, commands without effect and rejected ones take none
/// and leave nothing behind, every returned state is a prefix of the final
/// order, and an instance opened afresh on the storage (a restart, the
/// snapshot job) reads back the same state and can continue from it.
fn wal_history(
    r: &mut Report, args: &Args, case: u64, rng: &mut Rng,
) -> Option<(String, String, Value)> {
    use krill::commons::eventsourcing::WalStore;
    use waltoy::{WCmd, WKind, WLog};
    let memory = rng.chance(1, 2);
    let threads = rng.range(1, 6) as usize;
    let per_thread = rng.range(3, 10) as usize;
    let two_stores = rng.chance(1, 2);
    YIELD_SEED.store(rng.next(), Ordering::Relaxed);
    YIELD_HOT.store(case % 2, Ordering::Relaxed);
    let dir = args.work.join(format!("wal{case}"));
    let _ = std::fs::remove_dir_all(&dir);
    let storage = Arc::new(if memory {
        StorageSystem::new_memory(Some(case ^ args.shard_seed() ^ 0x77))
    } else {
        std::fs::create_dir_all(&dir).unwrap();
        StorageSystem::new_disk(dir.clone())
    });
    let ns = Ident::from_str("toywal").unwrap();
    let store_a = Arc::new(WalStore::<WLog>::create(&storage, ns).expect("wal"));
    let store_b = if two_stores {
        Arc::new(WalStore::<WLog>::create(&storage, ns).expect("wal b"))
    } else { store_a.clone() };
    let hdl = MyHandle::from_str("w0").unwrap();
    store_a.add(&hdl, WLog { revision: 0, items: vec![] }).expect("add");
    let desc = json!({"memory": memory, "threads": threads,
        "per_thread": per_thread, "two_stores": two_stores});
    kvh::util::mark_inflight(&args.out, &json!({
        "what": "wal toy history", "desc": desc, "exit_is_violation": true,
        "signature": "process-exit:wal-change-set-already-exists"
    }));

    #[derive(Clone, Debug, Serialize)]
    struct WRec { thread: usize, kind: &'static str, id: u64, ok: bool,
                  revision: Option<u64>, items: Option<Vec<u64>>,
                  err: Option<String> }
    let recs: Arc<Mutex<Vec<WRec>>> = Arc::new(Mutex::new(vec![]));
    let next_id = Arc::new(AtomicU64::new(1));
    let mut joins = vec![];
    // krill's division of labour: ONE store instance takes the commands
    // (the publication server's), a second one over the same storage only
    // writes snapshots (the scheduler's snapshot job) - a snapshot removes
    // the change sets, so two command-taking instances are not supported
    for t in 0..threads {
        let store = store_a.clone();
        let snap_store = store_b.clone();
        let (hdl, recs, next_id) = (hdl.clone(), recs.clone(), next_id.clone());
        let mut trng = Rng::new(rng.next());
        joins.push(std::thread::spawn(move || {
            TL_ID.with(|x| x.set(t as u64 + 1));
            for _ in 0..per_thread {
                let id = next_id.fetch_add(1, Ordering::SeqCst);
                let choice = trng.weighted(&[45, 12, 18, 15, 10]);
                let (kind, res) = match choice {
                    0 => ("append", store.send_command(WCmd {
                        handle: hdl.clone(), kind: WKind::Append(id) })),
                    1 => ("reject", store.send_command(WCmd {
                        handle: hdl.clone(), kind: WKind::Reject(id) })),
                    2 => ("noop", store.send_command(WCmd {
                        handle: hdl.clone(), kind: WKind::Noop })),
                    3 => ("read", store.get_latest(&hdl)),
                    _ => ("snapshot", snap_store.update_snapshot(&hdl)),
                };
                let rec = match res {
                    Ok(a) => WRec { thread: t, kind, id, ok: true,
                        revision: Some(a.revision),
                        items: Some(a.items.clone()), err: None },
                    Err(e) => WRec { thread: t, kind, id, ok: false,
                        revision: None, items: None, err: Some(e.to_string()) },
                };
                recs.lock().unwrap().push(rec);
            }
        }));
    }
    let mut panicked = false;
    for j in joins { if j.join().is_err() { panicked = true } }
    let recs = recs.lock().unwrap().clone();
    let wit = |x: Value| json!({"desc": desc, "records": recs.iter().take(80)
        .collect::<Vec<_>>(), "extra": x});
    if panicked {
        return Some(("wal:panic-in-store".into(),
            "a worker thread panicked inside the WAL store".into(), wit(json!({}))))
    }
    let live = match store_a.get_latest(&hdl) {
        Ok(a) => a,
        Err(e) => return Some(("wal:final-read-failed".into(), e.to_string(),
                               wit(json!({})))),
    };
    let fin = &live.items;
    r.eval();
    let mut appended = 0u64;
    for x in &recs {
        r.count("wal_records_checked", 1);
        match (x.kind, x.ok) {
            ("append", true) => {
                appended += 1;
                let n = fin.iter().filter(|i| **i == x.id).count();
                if n != 1 {
                    return Some((if n == 0 { "wal:acknowledged-command-lost" }
                        else { "wal:command-applied-twice" }.into(),
                        format!("id {} occurs {n} times in {fin:?}", x.id),
                        wit(json!({"record": x}))))
                }
                if x.items.as_ref().unwrap().last() != Some(&x.id) {
                    return Some(("wal:ack-state-not-after-own-command".into(),
                        format!("ack of {} returned {:?}", x.id, x.items),
                        wit(json!({"record": x}))))
                }
            }
            ("append", false) | ("noop", false) | ("read", false)
            | ("snapshot", false) => {
                return Some((format!("wal:{}-failed", x.kind),
                    format!("{:?}", x.err), wit(json!({"record": x}))))
            }
            ("reject", true) => return Some((
                "wal:failing-command-acknowledged".into(),
                format!("reject {}", x.id), wit(json!({"record": x})))),
            _ => {}
        }
        if let (Some(items), Some(rev)) = (&x.items, x.revision) {
            if items.len() > fin.len() || fin[..items.len()] != items[..] {
                return Some(("wal:state-not-a-prefix-of-final-order".into(),
                    format!("{} by thread {} saw {items:?}, final {fin:?}",
                            x.kind, x.thread), wit(json!({"record": x}))))
            }
            // one revision per accepted change set, none for anything else
            if rev != items.len() as u64 {
                return Some(("wal:revision-not-one-per-accepted-command".into(),
                    format!("{} by thread {} returned revision {rev} with {} \
                             accepted changes {items:?}", x.kind, x.thread,
                            items.len()), wit(json!({"record": x}))))
            }
        }
    }
    if fin.len() as u64 != appended || live.revision != appended {
        return Some(("wal:version-count-mismatch".into(),
            format!("final revision {} with {} items, {appended} acknowledged",
                    live.revision, fin.len()), wit(json!({}))))
    }
    // a fresh instance (restart, snapshot job) reads the same and continues
    let fresh = WalStore::<WLog>::create(&storage, ns).expect("fresh wal");
    match fresh.get_latest(&hdl) {
        Ok(f) if *f == *live => {}
        Ok(f) => return Some(("wal:live-state-differs-from-stored".into(),
            format!("live r{} {:?} vs re-read r{} {:?}", live.revision, fin,
                    f.revision, f.items), wit(json!({})))),
        Err(e) => return Some(("wal:stored-state-does-not-load".into(),
            e.to_string(), wit(json!({})))),
    }
    if let Ok(b) = store_b.get_latest(&hdl) {
        if *b != *live {
            return Some(("wal:second-instance-diverges".into(),
                format!("{:?} vs {:?}", b.items, fin), wit(json!({}))))
        }
    }
    let extra = next_id.fetch_add(1, Ordering::SeqCst);
    match fresh.send_command(WCmd { handle: hdl.clone(),
                                    kind: WKind::Append(extra) }) {
        Ok(a) if a.revision == live.revision + 1
            && a.items.len() == fin.len() + 1
            && a.items[..fin.len()] == fin[..] => {}
        Ok(a) => return Some(("wal:cannot-continue-after-reopen".into(),
            format!("after re-opening, an append gave r{} {:?} (was r{} {fin:?})",
                    a.revision, a.items, live.revision), wit(json!({})))),
        Err(e) => return Some(("wal:cannot-continue-after-reopen".into(),
            e.to_string(), wit(json!({})))),
    }
    r.count("wal_histories", 1);
    r.nontrivial(format!("wal:{memory}/{two_stores}/{threads}/{}",
        recs.iter().map(|x| x.kind.as_bytes()[0] as char).collect::<String>()));
    drop(fresh);
    let _ = std::fs::remove_dir_all(&dir);
    None
}

//============ real CertAuth + publication WAL ================================

fn real_history(
    r: &mut Report, args: &Args, case: u64, rng: &mut Rng,
) -> Option<(String, String, Value)> {
    let memory = rng.chance(1, 2);
    let dir = args.work.join(format!("real{case}"));
    let mut cfg = WorldCfg::new(&dir);
    if memory { cfg.memory = Some(case ^ args.shard_seed()) }
    let mut w = World::create(cfg);
    for (ca, parent, asn, v4) in [
        ("a", "ta", "AS65000-AS65010", "10.0.0.0/8"),
        ("b", "ta", "AS65011-AS65020", "11.0.0.0/8"),
    ] {
        if let Err(e) = w.add_ca(ca, parent, kvh::world::rs(asn, v4, "")) {
            r.inconclusive(format!("setup: {e}"));
            return None
        }
        w.quiesce();
    }
    w.sync_round();
    YIELD_SEED.store(rng.next(), Ordering::Relaxed);
    YIELD_HOT.store(case % 2, Ordering::Relaxed);
    if let Ok(mut l) = SITE_LOG.lock() { l.clear() }
    let v0: BTreeMap<String, u64> = ["a", "b"].iter().map(|c| {
        (c.to_string(), w.krill.ca_manager().get_ca(&h(c)).unwrap().version())
    }).collect();
    let threads = rng.range(3, 6) as usize;
    let per_thread = rng.range(2, 4) as usize;
    let desc = json!({"memory": memory, "threads": threads,
                      "per_thread": per_thread, "part": "real"});
    kvh::util::mark_inflight(&args.out, &json!({
        "what": "real history", "desc": desc, "exit_is_violation": true,
        "signature": "process-exit:command-key-already-exists"
    }));
    #[derive(Clone, Debug, Serialize)]
    struct RRec { thread: usize, ca: String, kind: &'static str,
                  prefix: String, ok: bool, roas_seen: Option<Vec<String>>,
                  version: Option<u64> }
    let recs: Arc<Mutex<Vec<RRec>>> = Arc::new(Mutex::new(vec![]));
    let krill = w.krill.clone();
    let mut joins = vec![];
    for t in 0..threads {
        let krill = krill.clone();
        let recs = recs.clone();
        let mut trng = Rng::new(rng.next());
        joins.push(std::thread::spawn(move || {
            TL_ID.with(|x| x.set(t as u64 + 1));
            let actor = krill.system_actor().clone();
            for seq in 0..per_thread {
                let ca = if trng.chance(2, 3) { "a" } else { "b" };
                let octet = if ca == "a" { 10 } else { 11 };
                let choice = trng.weighted(&[55, 15, 30]);
                let (kind, prefix) = match choice {
                    0 => ("add", format!("{octet}.{}.{}.0/24", t + 1, seq)),
                    1 => ("reject", format!("192.168.{}.0/24", t * 10 + seq)),
                    _ => ("read", String::new()),
                };
                let rec = if kind == "read" {
                    match krill.ca_manager().get_ca(&h(ca)) {
                        Ok(c) => RRec { thread: t, ca: ca.into(), kind,
                            prefix, ok: true,
                            roas_seen: Some(c.configured_roas().iter().map(|r| {
                                r.roa_configuration.payload.to_string()
                            }).collect()),
                            version: Some(c.version()) },
                        Err(_) => RRec { thread: t, ca: ca.into(), kind, prefix,
                            ok: false, roas_seen: None, version: None },
                    }
                } else {
                    let upd = krill::api::roa::RoaConfigurationUpdates {
                        added: vec![kvh::world::roa(&format!(
                            "{prefix} => {}", 65000 + t))],
                        removed: vec![],
                    };
                    let res = krill.ca_manager().ca_routes_update(
                        h(ca), upd, &actor, &krill);
                    RRec { thread: t, ca: ca.into(), kind, prefix,
                           ok: res.is_ok(), roas_seen: None, version: None }
                };
                recs.lock().unwrap().push(rec);
            }
        }));
    }
    let mut panicked = false;
    for j in joins { if j.join().is_err() { panicked = true } }
    let recs = recs.lock().unwrap().clone();
    let wit = |extra: Value| json!({"desc": desc, "records": recs, "extra": extra});
    if panicked {
        return Some(("panic-in-ca-command".into(),
            "a client thread panicked".into(), wit(json!({}))))
    }
    let sig: Vec<u64> = SITE_LOG.lock().map(|l| l.iter().map(|x| x.0).collect())
        .unwrap_or_default();
    let switches = sig.windows(2).filter(|w| w[0] != w[1]).count();
    if switches >= 2 {
        r.nontrivial(format!("ilv-real:{:016x}", kvh::util::fnv(
            &sig.iter().flat_map(|x| x.to_le_bytes()).collect::<Vec<_>>())));
    }
    for ca in ["a", "b"] {
        let c = match w.krill.ca_manager().get_ca(&h(ca)) {
            Ok(c) => c,
            Err(e) => return Some(("ca-does-not-load".into(), e.to_string(),
                                   wit(json!({})))),
        };
        r.eval();
        let roas: BTreeSet<String> = c.configured_roas().iter()
            .map(|r| r.roa_configuration.payload.prefix.to_string()).collect();
        let mut accepted = 0u64; let mut rejected = 0u64;
        for x in recs.iter().filter(|x| x.ca == ca) {
            r.count("records_checked", 1);
            match (x.kind, x.ok) {
                ("add", true) => {
                    accepted += 1;
                    if !roas.contains(&x.prefix) {
                        return Some(("acknowledged-command-lost".into(),
                            format!("{ca}: {} acknowledged but not configured",
                                    x.prefix), wit(json!({}))))
                    }
                }
                ("add", false) => return Some(("valid-delta-refused".into(),
                    format!("{ca}: {}", x.prefix), wit(json!({})))),
                ("reject", true) => return Some((
                    "invalid-delta-accepted".into(),
                    format!("{ca}: {}", x.prefix), wit(json!({})))),
                ("reject", false) => rejected += 1,
                ("read", true) => {
                    // a read sees only acknowledged-or-in-flight additions
                    // that are in the final state (prefix closure on a set)
                    for p in x.roas_seen.as_ref().unwrap() {
                        let pfx = p.split('-').next().unwrap_or(p)
                            .split(' ').next().unwrap_or(p).to_string();
                        if !roas.iter().any(|r| *r == pfx) {
                            return Some(("read-saw-state-not-in-final-order".into(),
                                format!("{ca}: read saw {p}"), wit(json!({}))))
                        }
                    }
                }
                _ => {}
            }
        }
        if roas.len() as u64 != accepted {
            return Some(("unacknowledged-or-duplicate-item".into(),
                format!("{ca}: {} configured, {accepted} acknowledged",
                        roas.len()), wit(json!({}))))
        }
        let want = v0[ca] + accepted + rejected;
        if c.version() != want {
            return Some(("version-count-mismatch".into(),
                format!("{ca}: version {} expected {want}", c.version()),
                wit(json!({}))))
        }
        let hist = w.krill.ca_manager().ca_history(
            &h(ca), CommandHistoryCriteria::default());
        match hist {
            Ok(hst) => {
                let versions: Vec<u64> = hst.commands.iter()
                    .map(|c| c.version).collect();
                let wantv: Vec<u64> = (1..want).collect();
                if versions != wantv {
                    return Some(("history-incomplete-or-out-of-order".into(),
                        format!("{ca}: {versions:?} vs 1..{want}"),
                        wit(json!({}))))
                }
            }
            Err(e) => return Some(("history-fails".into(), e.to_string(),
                                   wit(json!({})))),
        }
    }
    // background work after the concurrent phase still yields a valid tree
    let (ok, _, fatal) = kvh::oracle::catch_up(&mut w, 8);
    if let Some(f) = fatal.first() {
        return Some(("daemon-would-exit".into(), f.clone(), wit(json!({}))))
    }
    if ok {
        if let Some(obs) = kvh::oracle::observe(&w) {
            let (issues, _) = kvh::oracle::c01_check(&w, &obs);
            r.eval();
            if let Some((s, d)) = issues.first() {
                return Some((format!("after-concurrency:{s}"), d.clone(),
                             wit(json!({}))))
            }
        }
    }
    r.count("real_histories", 1);
    drop(w);
    let _ = std::fs::remove_dir_all(&dir);
    None
}

//============ directed pre-emption ===========================================

fn views(w: &World) -> (BTreeMap<String, BTreeSet<String>>, BTreeMap<String, u64>) {
    let mut roas = BTreeMap::new();
    for ca in ["a", "b"] {
        roas.insert(ca.to_string(),
            w.krill.ca_manager().get_ca(&h(ca)).map(|c| {
                c.configured_roas().iter()
                    .map(|r| r.roa_configuration.payload.to_string()).collect()
            }).unwrap_or_default());
    }
    let files = w.publisher_files().into_iter()
        .map(|(u, b)| (u, kvh::util::fnv(&b))).collect();
    (roas, files)
}

/// One template world per call; `max_points` parked positions are tried
/// (all of them in the thorough tier).
fn directed_case(
    r: &mut Report, args: &Args, case: u64, rng: &mut Rng,
) -> Option<(String, String, Value)> {
    use krill::server::mq::Task;
    use krill::server::scheduler::verif_process_task;
    let dir = args.work.join(format!("dir{case}"));
    let tmpl = args.work.join(format!("dir{case}-tmpl"));
    let _ = std::fs::remove_dir_all(&dir);
    let _ = std::fs::remove_dir_all(&tmpl);
    let cfg = WorldCfg::new(&dir);
    {
        let mut w = World::create(cfg.clone());
        for (ca, asn, v4) in [("a", "AS65000-AS65010", "10.0.0.0/8"),
                              ("b", "AS65011-AS65020", "11.0.0.0/8")] {
            if let Err(e) = w.add_ca(ca, "ta", kvh::world::rs(asn, v4, "")) {
                r.inconclusive(format!("directed setup: {e}"));
                return None
            }
            w.quiesce();
        }
        for (ca, p) in [("a", "10.1.0.0/24 => 65000"), ("b", "11.1.0.0/24 => 65011"),
                        ("a", "10.2.0.0/24 => 65001")] {
            let _ = w.roas_update(ca, vec![kvh::world::roa(p)], vec![]);
            w.quiesce();
        }
        w.sync_round();
        drop(w);
        kvh::util::copy_dir(&dir, &tmpl).ok()?;
    }
    let victims: [(&str, Task); 2] = [
        ("update_snapshots", Task::UpdateSnapshots),
        ("rrdp_update", Task::RrdpUpdateIfNeeded),
    ];
    let (vname, vtask) = victims[(case % 2) as usize].clone();
    let run_one = |target: u64, r: &mut Report|
        -> Result<(u64, Option<(String, String, Value)>), String>
    {
        let _ = std::fs::remove_dir_all(&dir);
        kvh::util::copy_dir(&tmpl, &dir).map_err(|e| e.to_string())?;
        let mut w = World::open_raw(cfg.clone());
        // a change that is committed in the CA but not yet published, so
        // that the intruder's repository synchronisation has work to do
        let _ = w.roas_update(
            "b", vec![kvh::world::roa("11.3.0.0/24 => 65012")], vec![]);
        *DIRECTED.lock().unwrap() = Some(Directed {
            victim: 1, target, count: 0, parked: false, released: false,
            site: "",
        });
        // the victim is a task of the queue: scheduled, claimed (so that it
        // is the queue's RUNNING entry of that name while it is parked) and
        // completed afterwards as the scheduler does
        let _ = w.krill.tasks().schedule(vtask.clone(), krill::server::mq::now());
        let vkey = w.pending().into_iter()
            .find(|p| p.1.contains(if vname == "rrdp_update" { "rrdp" }
                                   else { "snapshot" }))
            .map(|p| p.2);
        let claimed = vkey.as_ref().map(|k| w.claim_only(k)).unwrap_or(false);
        let running_key = if claimed {
            w.running().into_iter().map(|p| p.2).next()
        } else { None };
        let slow = w.slow.clone();
        let started = w.started;
        let vt = vtask.clone();
        let victim = std::thread::spawn(move || {
            TL_ID.with(|x| x.set(1));
            kvh::util::catch(move || {
                verif_process_task(&slow, vt, started).map(|_| ())
                    .map_err(|e| e.to_string())
            })
        });
        // wait until the victim is parked (or finished without reaching k)
        let t0 = std::time::Instant::now();
        let mut parked_at = "";
        loop {
            {
                let g = DIRECTED.lock().unwrap();
                if let Some(d) = g.as_ref() {
                    if d.parked { parked_at = d.site; break }
                }
            }
            if victim.is_finished() { break }
            if t0.elapsed() > std::time::Duration::from_secs(20) { break }
            std::thread::sleep(std::time::Duration::from_millis(2));
        }
        // the intruder: an API command and the repository synchronisations
        let krill = w.krill.clone();
        let slow2 = w.slow.clone();
        let intruder = std::thread::spawn(move || {
            TL_ID.with(|x| x.set(2));
            kvh::util::catch(move || {
                let actor = krill.system_actor().clone();
                let add = krill.ca_manager().ca_routes_update(
                    h("a"),
                    krill::api::roa::RoaConfigurationUpdates {
                        added: vec![kvh::world::roa("10.9.0.0/24 => 65002")],
                        removed: vec![],
                    }, &actor, &krill,
                ).map_err(|e| e.to_string());
                for ca in ["a", "b"] {
                    let _ = verif_process_task(&slow2, Task::SyncRepo {
                        ca_handle: h(ca), ca_version: 0,
                    }, started);
                }
                // (the RRDP update that follows is the scheduler's business:
                // the publication has queued it, it runs after the release)
                add
            })
        });
        // give the intruder time to finish while the victim is parked; if it
        // needs a lock the victim holds it finishes after the release
        let t1 = std::time::Instant::now();
        while !intruder.is_finished()
            && t1.elapsed() < std::time::Duration::from_millis(1500)
        {
            std::thread::sleep(std::time::Duration::from_millis(5));
        }
        let overlapped = intruder.is_finished();
        if let Some(d) = DIRECTED.lock().unwrap().as_mut() { d.released = true }
        DIRECTED_CV.notify_all();
        let vres = victim.join();
        let ires = intruder.join();
        if let Some(k) = &running_key {
            if let Ok(id) = Ident::from_str(k) {
                let _ = w.krill.tasks().finish(id);
            }
        }
        let count = DIRECTED.lock().unwrap().as_ref().map(|d| d.count).unwrap_or(0);
        *DIRECTED.lock().unwrap() = None;
        let wit = json!({"victim": vname, "parked_after_yield_points": target,
            "parked_at": parked_at, "intruder_ran_while_parked": overlapped});
        match (&vres, &ires) {
            (Ok(Ok(_)), Ok(Ok(add))) => {
                if let Err(e) = add {
                    return Ok((count, Some(("directed:valid-command-refused".into(),
                        e.clone(), wit))))
                }
            }
            _ => {
                return Ok((count, Some(("directed:panic".into(),
                    format!("victim {vres:?} intruder {ires:?}"), wit))))
            }
        }
        if target == u64::MAX { drop(w); return Ok((count, None)) }
        r.eval();
        r.count("directed_preemptions", 1);
        if overlapped { r.count("directed_intruder_ran_while_parked", 1) }
        r.nontrivial(format!("directed|{vname}|{parked_at}|{overlapped}"));
        // everything settles
        let (_, ok) = w.quiesce();
        if !ok {
            r.inconclusive("directed: queue not idle");
            return Ok((count, None))
        }
        let live = views(&w);
        if !live.0["a"].iter().any(|x| x.starts_with("10.9.0.0/24")) {
            return Ok((count, Some(("directed:acknowledged-command-lost".into(),
                format!("a: {:?}", live.0["a"]), wit))))
        }
        // what the publication server accepted while the task was parked is
        // served once everything has settled (its follow-up was scheduled
        // while a task of the same name was running)
        match kvh::rrdpview::read_rrdp(&w.repo_dir()) {
            Ok(st) => {
                let want: BTreeMap<String, Vec<u8>> = w.publisher_files()
                    .into_iter().map(|(u, b)| (u, b.to_vec())).collect();
                r.eval();
                if st.snapshot != want {
                    let diff: Vec<&String> = want.keys()
                        .filter(|u| st.snapshot.get(*u) != want.get(*u))
                        .chain(st.snapshot.keys()
                               .filter(|u| !want.contains_key(*u)))
                        .take(5).collect();
                    return Ok((count, Some((
                        "directed:accepted-content-not-served".into(),
                        format!("after the queue became idle the RRDP snapshot \
                                 (serial {}) differs from the accepted content \
                                 in {diff:?}", st.serial), wit))))
                }
            }
            Err(e) => return Ok((count, Some((
                "directed:notification-unusable".into(), e, wit)))),
        }
        drop(w);
        // a second instance on the same directory shows the same
        let w2 = World::open_raw(cfg.clone());
        let fresh = views(&w2);
        r.eval();
        if fresh.0 != live.0 {
            return Ok((count, Some((
                "directed:configuration-differs-after-restart".into(),
                format!("running {:?} restarted {:?}", live.0, fresh.0), wit))))
        }
        if fresh.1 != live.1 {
            let diff: Vec<&String> = live.1.keys().chain(fresh.1.keys())
                .filter(|u| live.1.get(*u) != fresh.1.get(*u)).take(6).collect();
            return Ok((count, Some((
                "directed:published-content-differs-after-restart".into(),
                format!("the restarted publication server differs in {diff:?}"),
                wit))))
        }
        if let Some(obs) = kvh::oracle::observe(&w2) {
            let (issues, _) = kvh::oracle::c01_check(&w2, &obs);
            r.eval();
            if let Some((s2, d)) = issues.first() {
                return Ok((count, Some((format!("directed:after-restart:{s2}"),
                                        d.clone(), wit))))
            }
        }
        drop(w2);
        Ok((count, None))
    };
    // dry run: how many yield points does the victim pass?
    let total = match run_one(u64::MAX, r) {
        Ok((n, None)) => n,
        Ok((_, Some(v))) => return Some(v),
        Err(e) => { r.inconclusive(format!("directed dry run: {e}")); return None }
    };
    r.max("directed_yield_points_of_victim", total);
    if total == 0 { return None }
    let mut points: Vec<u64> = (1..=total).collect();
    if !args.thorough() {
        rng.shuffle(&mut points);
        points.truncate(5);
    }
    for k in points {
        if !r.within_budget() && !args.thorough() { break }
        match run_one(k, r) {
            Ok((_, Some(v))) => {
                let _ = std::fs::remove_dir_all(&dir);
                let _ = std::fs::remove_dir_all(&tmpl);
                return Some(v)
            }
            Ok((_, None)) => {}
            Err(e) => { r.inconclusive(format!("directed: {e}")); break }
        }
    }
    let _ = std::fs::remove_dir_all(&dir);
    let _ = std::fs::remove_dir_all(&tmpl);
    None
}

//============ life cycle: creation, removal and re-creation under contention ==

/// An entity is created, removed and created again (a CA or publisher that is
/// deleted and set up again under the same name) by several threads at once,
/// with commands in between. Whatever the interleaving: the entity exists at
/// most once, so every successful creation needs the entity to be absent -
/// absent at the start or after a removal. Hence
///   successful creations <= 1 + removal calls,
/// a returned state only carries ids whose appends were acknowledged or are
/// still in flight, never one id twice, and what an instance opened afresh
/// loads is what the last acknowledged command returned.
fn lifecycle_case(
    r: &mut Report, args: &Args, case: u64, rng: &mut Rng,
) -> Option<(String, String, Value)> {
    let memory = rng.chance(1, 3);
    let threads = rng.range(3, 6) as usize;
    let per_thread = rng.range(4, 9) as usize;
    YIELD_SEED.store(rng.next(), Ordering::Relaxed);
    YIELD_HOT.store(case % 2, Ordering::Relaxed);
    let dir = args.work.join(format!("life{case}"));
    let _ = std::fs::remove_dir_all(&dir);
    let storage = Arc::new(if memory {
        StorageSystem::new_memory(Some(case ^ args.shard_seed() ^ 0x11fe))
    } else {
        std::fs::create_dir_all(&dir).unwrap();
        StorageSystem::new_disk(dir.clone())
    });
    let ns = Ident::from_str("toylife").unwrap();
    let store = Arc::new(AggregateStore::<Log>::create(&storage, ns, false)
        .expect("store"));
    let actor = Actor::user("verif-client");
    let hdl = MyHandle::from_str("d0").unwrap();
    let desc = json!({"part": "lifecycle", "memory": memory,
                      "threads": threads, "per_thread": per_thread});
    kvh::util::mark_inflight(&args.out, &json!({
        "what": "toy life cycle", "desc": desc, "exit_is_violation": true,
        "signature": "process-exit:command-key-already-exists"
    }));
    let recs: Arc<Mutex<Vec<Rec>>> = Arc::new(Mutex::new(vec![]));
    let next_id = Arc::new(AtomicU64::new(1));
    let barrier = Arc::new(std::sync::Barrier::new(threads));
    let mut joins = vec![];
    for t in 0..threads {
        let store = store.clone();
        let hdl = hdl.clone();
        let recs = recs.clone();
        let next_id = next_id.clone();
        let actor = actor.clone();
        let barrier = barrier.clone();
        let mut trng = Rng::new(rng.next());
        joins.push(std::thread::spawn(move || {
            TL_ID.with(|x| x.set(t as u64 + 1));
            barrier.wait();
            for seq in 0..per_thread {
                let id = next_id.fetch_add(1, Ordering::SeqCst);
                let choice = if seq == 0 { 0 } else {
                    trng.weighted(&[40, 22, 38])
                };
                let (kind, ok, items, err): (&'static str, bool,
                    Option<Vec<u64>>, Option<String>) = match choice {
                    0 => match store.add(SentInitCommand::new(
                        hdl.clone(), LogInitDetails, &actor))
                    {
                        Ok(a) => ("create", true, Some(a.items.clone()), None),
                        Err(e) => ("create", false, None, Some(e.to_string())),
                    },
                    1 => match store.drop_aggregate(&hdl) {
                        Ok(()) => ("remove", true, None, None),
                        Err(e) => ("remove", false, None, Some(e.to_string())),
                    },
                    _ => match store.command(SentCommand::new(
                        hdl.clone(), None, LogCmd::Append(id), &actor))
                    {
                        Ok(a) => ("append", true, Some(a.items.clone()), None),
                        Err(e) => ("append", false, None, Some(e.to_string())),
                    },
                };
                recs.lock().unwrap().push(Rec {
                    thread: t, seq, entity: "d0".into(), kind, id, ok,
                    version: None, items, err,
                });
            }
        }));
    }
    let mut panicked = false;
    for j in joins { if j.join().is_err() { panicked = true } }
    let recs = recs.lock().unwrap().clone();
    let wit = |extra: Value| json!({"desc": desc, "records": recs.iter()
        .take(80).collect::<Vec<_>>(), "extra": extra});
    if panicked {
        return Some(("panic-in-store".into(),
            "a worker thread panicked inside the store (life cycle)".into(),
            wit(json!({}))))
    }
    r.eval();
    r.count("lifecycle_cases", 1);
    let creations = recs.iter().filter(|x| x.kind == "create" && x.ok).count();
    let removals = recs.iter().filter(|x| x.kind == "remove").count();
    r.count("lifecycle_creations_acknowledged", creations as u64);
    r.nontrivial(format!("lifecycle:mem={memory}:creations={}:removals={}",
                         creations.min(4), removals.min(4)));
    if creations > 1 + removals {
        return Some((
            "entity-created-while-it-exists".into(),
            format!("{creations} creations of d0 were acknowledged with only \
                     {removals} removal call(s): an entity was created while \
                     it existed"),
            wit(json!({"creations": creations, "removals": removals}))))
    }
    // returned states: a fresh entity is empty, no id twice, only ids that
    // were sent
    let sent: std::collections::BTreeSet<u64> = recs.iter()
        .filter(|x| x.kind == "append").map(|x| x.id).collect();
    for x in &recs {
        r.eval();
        let Some(items) = &x.items else { continue };
        if x.kind == "create" && !items.is_empty() {
            return Some(("created-entity-not-empty".into(),
                format!("{x:?}"), wit(json!({}))))
        }
        let set: std::collections::BTreeSet<u64> = items.iter().cloned().collect();
        if set.len() != items.len() {
            return Some(("command-applied-twice".into(),
                format!("life cycle: {x:?}"), wit(json!({}))))
        }
        if x.kind == "append" && items.last() != Some(&x.id) {
            return Some(("acknowledged-state-without-own-command".into(),
                format!("life cycle: {x:?}"), wit(json!({}))))
        }
        if let Some(bad) = items.iter().find(|i| !sent.contains(i)) {
            return Some(("state-carries-unknown-command".into(),
                format!("life cycle: id {bad} in {x:?}"), wit(json!({}))))
        }
    }
    // what is stored loads, in this instance and in one opened afresh, and
    // both agree
    let live = store.has(&hdl).ok().and_then(|h| {
        if h { Some(store.get_latest(&hdl).map(|a| a.items.clone())
                    .map_err(|e| e.to_string())) } else { None }
    });
    let fresh_store = AggregateStore::<Log>::create(&storage, ns, false)
        .expect("store");
    let fresh = fresh_store.has(&hdl).ok().and_then(|h| {
        if h { Some(fresh_store.get_latest(&hdl).map(|a| a.items.clone())
                    .map_err(|e| e.to_string())) } else { None }
    });
    r.eval();
    match (&live, &fresh) {
        (Some(Err(e)), _) | (_, Some(Err(e))) => {
            return Some(("entity-does-not-load-after-life-cycle".into(),
                e.clone(), wit(json!({}))))
        }
        (a, b) if a != b => {
            return Some(("fresh-instance-diverges-after-life-cycle".into(),
                format!("running instance: {a:?}; instance opened afresh: {b:?}"),
                wit(json!({}))))
        }
        _ => {}
    }
    let _ = std::fs::remove_dir_all(&dir);
    None
}

fn main() {
    let args = Args::parse();
    let mut r = Report::new("C07", &args);
    install_yield_hook();
    let mut rng = Rng::new(args.shard_seed());
    if args.replay.is_some() {
        println!("replay: C07 histories depend on the OS schedule; re-run \
                  with the same --seed/--shard to repeat the workload");
        r.write();
        return
    }
    let mut case = 0u64;
    while r.within_budget() {
        for _ in 0..25 {
            case += 1;
            if let Some((s, d, w)) = toy_history(&mut r, &args, case, &mut rng) {
                r.violation(&s, &d, w);
            }
            if case % 3 == 0 {
                case += 1;
                if let Some((s, d, w)) = wal_history(&mut r, &args, case, &mut rng) {
                    r.violation(&s, &d, w);
                }
            }
            if case % 4 == 1 {
                case += 1;
                if let Some((s, d, w)) = lifecycle_case(&mut r, &args, case, &mut rng) {
                    r.violation(&s, &d, w);
                }
            }
            if !r.within_budget() { break }
        }
        if !r.within_budget() { break }
        case += 1;
        if let Some((s, d, w)) = real_history(&mut r, &args, case, &mut rng) {
            r.violation(&s, &d, w);
        }
        if !r.within_budget() { break }
        case += 1;
        if let Some((s, d, w)) = directed_case(&mut r, &args, case, &mut rng) {
            r.violation(&s, &d, w);
        }
        let _ = std::fs::write(args.work.join("partial.json"),
            serde_json::to_vec(&r.to_json()).unwrap());
    }
    krill::verif::set_yield_hook(None);
    r.write();
}
