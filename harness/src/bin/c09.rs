//! C09 — background work is durable and recurring maintenance never stops.
//!
//! Part A: the real `Queue`/`TaskQueue` against the semantics stated by the
//!         property, step by step (schedule in all five modes, claim,
//!         finish, reschedule, clock advance, restart with k running).
//! Part C: a world is stopped with k claimed-but-unfinished tasks and
//!         started again: every one of them and every recurring task must
//!         be scheduled again and run.
//! Part B: after every committed operation of a history and queue
//!         quiescence (no manual sync rounds), the follow-ups implied by the
//!         change have happened.

use std::collections::{BTreeMap, BTreeSet};
use kvh::hist::{self, Op, Outcome, Profile};
use kvh::oracle;
use kvh::runner::{self, Ctx, Issue, Monitor, RunCfg};
use kvh::rrdpview;
use kvh::util::{Args, Report, Rng};
use kvh::world::{h, World, WorldCfg};
use krill::commons::queue::{Queue, ScheduleMode};
use krill::commons::storage::{Ident, KeyValueStore, StorageSystem};
use krill::server::mq::{Task, TaskQueue};
use serde_json::{json, Value};

//============ Part A =========================================================

type Entries = Vec<(u128, String, String)>; // (ts, name, key)

fn list(kv: &KeyValueStore, scope: &str) -> Entries {
    let scope = Ident::from_str(scope).unwrap();
    let mut res: Entries = kv.keys(Some(scope), "").unwrap_or_default()
        .into_iter().filter_map(|k| {
            let (ts, name) = k.as_str().split_once('-')?;
            Some((ts.parse().ok()?, name.to_string(), k.to_string()))
        }).collect();
    res.sort();
    res
}

fn real_now() -> u128 {
    let real = std::time::SystemTime::now()
        .duration_since(std::time::UNIX_EPOCH).unwrap().as_millis();
    (real as i128 + krill::verif::queue_clock_offset_ms() as i128) as u128
}

fn of(entries: &Entries, name: &str) -> Vec<u128> {
    entries.iter().filter(|e| e.1 == name).map(|e| e.0).collect()
}

fn others(entries: &Entries, name: &str) -> Vec<(u128, String)> {
    entries.iter().filter(|e| e.1 != name)
        .map(|e| (e.0, e.1.clone())).collect()
}

const NAMES: &[&str] = &[
    "all_cas_republish_if_needed", "sync_repo_a", "sync_a_with_parent_b",
    "update_rrdp_if_needed", "queue_start_tasks",
];

fn mode_name(m: usize) -> &'static str {
    ["if_missing", "replace", "replace_soonest", "finish_or_replace",
     "finish_or_replace_soonest"][m]
}

fn mode(m: usize) -> ScheduleMode {
    match m {
        0 => ScheduleMode::IfMissing,
        1 => ScheduleMode::ReplaceExisting,
        2 => ScheduleMode::ReplaceExistingSoonest,
        3 => ScheduleMode::FinishOrReplaceExisting,
        _ => ScheduleMode::FinishOrReplaceExistingSoonest,
    }
}

/// One model-based queue case. Returns the first issue found.
fn queue_case(
    r: &mut Report, args: &Args, case: u64, rng: &mut Rng,
) -> Option<(String, String, Value)> {
    krill::verif::set_queue_clock_offset_ms(0);
    let memory = rng.chance(1, 2);
    let dir = args.work.join(format!("q{case}"));
    let _ = std::fs::remove_dir_all(&dir);
    let storage = if memory {
        StorageSystem::new_memory(Some(case ^ args.shard_seed()))
    } else {
        std::fs::create_dir_all(&dir).unwrap();
        StorageSystem::new_disk(dir.clone())
    };
    let ns = Ident::from_str("tasks").unwrap();
    let q = Queue::create(&storage, ns).expect("queue");
    let kv = storage.open(ns).expect("kv");
    let steps = rng.range(5, 40);
    let mut trace: Vec<Value> = vec![];
    let mut uid = 0u64;
    let mut issue: Option<(String, String)> = None;

    for _ in 0..steps {
        let pend0 = list(&kv, "pending");
        let run0 = list(&kv, "running");
        let choice = rng.weighted(&[40, 25, 10, 10, 8, 7]);
        match choice {
            0 => {
                let name = *rng.pick(NAMES);
                let m = rng.below(5) as usize;
                let now = real_now();
                let delta: i128 = *rng.pick(&[
                    -2000i128, -1000, 0, 1000, 3000, 60000
                ]);
                let ts_opt = if rng.chance(1, 8) { None }
                    else { Some((now as i128 + delta) as u128) };
                uid += 1;
                let value = json!({"uid": uid});
                trace.push(json!({"schedule": name, "mode": mode_name(m),
                                  "ts_rel": ts_opt.map(|_| delta)}));
                let before = real_now();
                let res = q.schedule_task(
                    Ident::from_str(name).unwrap(), &value, ts_opt, mode(m)
                );
                let after = real_now();
                r.eval();
                r.nontrivial(format!(
                    "sched|{}|p{}|r{}", mode_name(m),
                    of(&pend0, name).len().min(2), of(&run0, name).len().min(2)
                ));
                if let Err(e) = res {
                    issue = Some(("queue-op-error".into(), format!("{e}")));
                    break
                }
                let pend1 = list(&kv, "pending");
                let run1 = list(&kv, "running");
                let p_old = of(&pend0, name);
                let r_old = of(&run0, name);
                let p_new = of(&pend1, name);
                let r_new = of(&run1, name);
                let t_ok = |t: u128| match ts_opt {
                    Some(ts) => t == ts,
                    None => t >= before && t <= after,
                };
                if others(&pend0, name) != others(&pend1, name)
                    || others(&run0, name) != others(&run1, name)
                {
                    issue = Some(("schedule-touched-other-task".into(),
                        format!("scheduling {name} changed another task")));
                    break
                }
                let expect_min = |t: u128| -> u128 {
                    p_old.iter().cloned().chain(std::iter::once(t)).min().unwrap()
                };
                let mut bad: Option<String> = None;
                match m {
                    0 => {
                        if !p_old.is_empty() || !r_old.is_empty() {
                            if p_new != p_old || r_new != r_old {
                                bad = Some("if-missing changed an existing task".into());
                            }
                        } else if p_new.len() != 1 || !t_ok(p_new[0]) {
                            bad = Some("if-missing did not add the task".into());
                        }
                    }
                    1 | 3 => {
                        if p_old.len() <= 1
                            && (p_new.len() != 1 || !t_ok(p_new[0]))
                        {
                            bad = Some(format!(
                                "replace: pending {p_new:?}, expected the new time only"));
                        }
                    }
                    _ => {
                        if p_old.len() <= 1 {
                            let newest = match ts_opt {
                                Some(ts) => ts,
                                None => *p_new.iter().max().unwrap_or(&0),
                            };
                            let want = expect_min(newest);
                            if p_new.len() != 1
                                || (ts_opt.is_some() && p_new[0] != want)
                                || (ts_opt.is_none()
                                    && p_new[0] > after)
                            {
                                bad = Some(format!(
                                    "soonest: had {p_old:?}, scheduled {ts_opt:?}, \
                                     now pending {p_new:?}, expected the earlier \
                                     of the two times"));
                            }
                        } else if let Some(ts) = ts_opt {
                            let want = expect_min(ts);
                            if p_new.iter().min() != Some(&want) {
                                bad = Some(format!(
                                    "soonest (duplicates): min {:?} != {want}",
                                    p_new.iter().min()));
                            }
                        }
                    }
                }
                if bad.is_none() {
                    if m >= 3 {
                        if r_old.len() <= 1 && !r_new.is_empty() {
                            bad = Some("finish-or-replace left the running task".into());
                        }
                    } else if r_new != r_old {
                        bad = Some("non-finishing mode changed the running task".into());
                    }
                }
                if let Some(b) = bad {
                    issue = Some((format!("schedule-semantics:{}", mode_name(m)), b));
                    break
                }
            }
            1 => {
                trace.push(json!("claim"));
                let before = real_now();
                let res = q.claim_scheduled_pending_task();
                let after = real_now();
                r.eval();
                let certainly_due: Vec<u128> = pend0.iter()
                    .filter(|e| e.0 <= before).map(|e| e.0).collect();
                let maybe_due: Vec<u128> = pend0.iter()
                    .filter(|e| e.0 <= after).map(|e| e.0).collect();
                match res {
                    Err(e) => {
                        issue = Some(("queue-op-error".into(), format!("claim: {e}")));
                        break
                    }
                    Ok(None) => {
                        r.nontrivial(format!("claim|none|due{}", certainly_due.len().min(2)));
                        if !certainly_due.is_empty() {
                            issue = Some(("claim-missed-due-task".into(),
                                format!("{} due tasks but claim returned none",
                                        certainly_due.len())));
                            break
                        }
                    }
                    Ok(Some((key, value))) => {
                        let pend1 = list(&kv, "pending");
                        let run1 = list(&kv, "running");
                        let name = key.as_str().split_once('-')
                            .map(|x| x.1.to_string()).unwrap_or_default();
                        // which pending entry went away
                        let gone: Vec<&(u128, String, String)> = pend0.iter()
                            .filter(|e| !pend1.contains(e)).collect();
                        r.nontrivial(format!(
                            "claim|some|due{}|ties{}", maybe_due.len().min(3),
                            maybe_due.iter().filter(|t| Some(*t) == maybe_due.iter().min()).count().min(2)
                        ));
                        if gone.len() != 1 || gone[0].1 != name {
                            issue = Some(("claim-bookkeeping".into(),
                                format!("claimed {key} but pending lost {gone:?}")));
                            break
                        }
                        let ts = gone[0].0;
                        if ts > after {
                            issue = Some(("claim-not-due".into(),
                                format!("claimed {name} scheduled at {ts} > now {after}")));
                            break
                        }
                        if let Some(min) = certainly_due.iter().min() {
                            if ts > *min {
                                issue = Some(("claim-not-earliest".into(),
                                    format!("claimed {name} at {ts} while a task \
                                             due at {min} was pending")));
                                break
                            }
                        }
                        if run1.len() != run0.len() + 1
                            || !run1.iter().any(|e| e.2 == key.as_str())
                        {
                            issue = Some(("claim-bookkeeping".into(),
                                "claimed task not in running".into()));
                            break
                        }
                        if value.get("uid").is_none() {
                            issue = Some(("claim-lost-value".into(),
                                format!("value {value}")));
                            break
                        }
                    }
                }
            }
            2 => {
                if run0.is_empty() { continue }
                let e = rng.pick(&run0).clone();
                trace.push(json!({"finish": e.1}));
                let res = q.finish_running_task(Ident::from_str(&e.2).unwrap());
                r.eval();
                r.nontrivial("finish".to_string());
                let run1 = list(&kv, "running");
                if res.is_err() || run1.len() + 1 != run0.len()
                    || list(&kv, "pending") != pend0
                {
                    issue = Some(("finish-semantics".into(),
                        format!("finish {}: {:?}", e.2, res.err().map(|e| e.to_string()))));
                    break
                }
            }
            3 => {
                if run0.is_empty() { continue }
                let e = rng.pick(&run0).clone();
                let now = real_now();
                let delta: i128 = *rng.pick(&[-1000i128, 0, 1000, 5000]);
                let ts = (now as i128 + delta) as u128;
                trace.push(json!({"reschedule": e.1, "ts_rel": delta}));
                let res = q.reschedule_running_task(
                    Ident::from_str(&e.2).unwrap(), Some(ts)
                );
                r.eval();
                let pend1 = list(&kv, "pending");
                let run1 = list(&kv, "running");
                let p_old = of(&pend0, &e.1);
                r.nontrivial(format!("reschedule|p{}", p_old.len().min(2)));
                let mut want = p_old.clone(); want.push(ts); want.sort();
                let mut got = of(&pend1, &e.1); got.sort();
                if res.is_err() || run1.len() + 1 != run0.len()
                    || got.iter().min() != want.iter().min()
                    || !got.contains(&ts) && p_old.is_empty()
                {
                    issue = Some(("reschedule-semantics".into(),
                        format!("reschedule {} to {ts}: pending {got:?}, \
                                 expected earliest of {want:?}; err {:?}",
                                e.2, res.err().map(|e| e.to_string()))));
                    break
                }
            }
            4 => {
                let ms = *rng.pick(&[500i64, 1500, 4000, 61000]);
                trace.push(json!({"advance_ms": ms}));
                krill::verif::set_queue_clock_offset_ms(
                    krill::verif::queue_clock_offset_ms() + ms
                );
            }
            _ => {
                // daemon restart: running tasks must come back
                trace.push(json!({"restart_with_running": run0.len()}));
                let tq = TaskQueue::new(&storage).expect("task queue");
                let res = tq.reschedule_tasks_at_startup();
                r.eval();
                r.nontrivial(format!("restart|k{}", run0.len().min(5)));
                r.distinct("restart_k", run0.len().to_string());
                if let Err(e) = res {
                    issue = Some(("restart-error".into(), e.to_string()));
                    break
                }
                let pend1 = list(&kv, "pending");
                let run1 = list(&kv, "running");
                let mut lost: Vec<String> = vec![];
                for e in &run0 {
                    if e.1 == "queue_start_tasks" { continue }
                    // tasks are identified by name: the name must be
                    // pending again (two running entries of one name may
                    // legitimately collapse into one pending entry)
                    let after = of(&pend1, &e.1).len();
                    let still_running = run1.iter().any(|x| x.2 == e.2);
                    if (still_running || after == 0)
                        && !lost.contains(&e.1)
                    {
                        lost.push(e.1.clone());
                    }
                }
                if !lost.is_empty() {
                    issue = Some((
                        format!("restart-leaves-running:k={}", run0.len()),
                        format!("{} task(s) were running at restart; not \
                                 back in pending: {lost:?}", run0.len()),
                    ));
                    break
                }
            }
        }
    }
    r.count("queue_cases", 1);
    if r.samples.len() < 2 {
        r.sample(json!({"queue_case": trace.iter().take(14).collect::<Vec<_>>(),
                        "memory": memory}));
    }
    krill::verif::set_queue_clock_offset_ms(0);
    let _ = std::fs::remove_dir_all(&dir);
    issue.map(|(s, d)| (s, d, json!({"memory": memory, "trace": trace})))
}

//============ Part C =========================================================

fn restart_case(
    r: &mut Report, args: &Args, k: usize, rng: &mut Rng, large: bool,
) -> Option<(String, String, Value)> {
    let dir = args.work.join(format!("restart{k}{}", if large { "L" } else { "" }));
    let mut w = World::create(WorldCfg::new(&dir));
    if large {
        // more CAs than the start-up code's "only a handful of CAs"
        // threshold (5), so that its other branch runs
        for i in 0..5 {
            let out = hist::apply(&mut w, &Op::AddCa {
                ca: format!("x{i}"), parent: "ta".into(),
                asn: format!("AS651{i}0"), v4: format!("10.{}.0.0/16", 100 + i),
                v6: "".into() });
            if !out.is_ok() {
                r.inconclusive(format!("restart case setup: {out:?}"));
                return None
            }
        }
        let _ = hist::apply(&mut w, &Op::Quiesce);
    }
    for op in [
        Op::AddCa { ca: "a".into(), parent: "ta".into(),
            asn: "AS65000-AS65005".into(), v4: "10.0.0.0/16".into(),
            v6: "".into() },
        Op::Quiesce,
        Op::AddCa { ca: "b".into(), parent: "a".into(), asn: "AS65001".into(),
            v4: "10.0.0.0/24".into(), v6: "".into() },
        Op::Quiesce,
        Op::RoaDelta { ca: "b".into(), add: vec!["10.0.0.0/24 => 65001".into()],
            remove: vec![] },
        Op::Quiesce,
    ] {
        let out = hist::apply(&mut w, &op);
        if !out.is_ok() {
            r.inconclusive(format!("restart case setup: {out:?}"));
            return None
        }
    }
    // make k distinct tasks due and claim them without finishing
    let mut candidates = vec![
        Task::RepublishIfNeeded, Task::RenewObjectsIfNeeded,
        Task::SyncRepo { ca_handle: h("b"), ca_version: 0 },
        Task::SyncParent { ca_handle: h("b"), ca_version: 0,
                           parent: h("a").convert() },
        Task::UpdateSnapshots, Task::RrdpUpdateIfNeeded,
        Task::SyncRepo { ca_handle: h("a"), ca_version: 0 },
    ];
    rng.shuffle(&mut candidates);
    // a content change whose follow-up is among the interrupted tasks
    let _ = hist::apply(&mut w, &Op::RoaDelta {
        ca: "b".into(), add: vec!["10.0.0.0/24-25 => 65001".into()],
        remove: vec![] });
    let mut claimed: Vec<String> = vec![];
    // the pending repo sync of b is a follow-up of a committed change
    for t in candidates.iter().take(k) {
        w.krill.tasks().schedule(t.clone(), krill::server::mq::now())
            .expect("schedule");
    }
    w.advance_ms(1500);
    for _ in 0..k {
        if let Some((key, _)) = w.krill.tasks().pop() {
            claimed.push(key.as_str().split_once('-').unwrap().1.to_string());
        }
    }
    // the state a crash inside the completion of a parent synchronisation
    // leaves behind (running and old pending entry deleted, the new pending
    // entry not yet stored): no entry at all for that name. The start-up
    // code must schedule the parent refresh again.
    let lost_sync = if large { "sync_x3_with_parent_ta" }
        else { "sync_b_with_parent_a" };
    if !claimed.iter().any(|c| c == lost_sync) {
        let pend = krill::commons::storage::Ident::make("pending");
        for p in w.pending() {
            if p.1 == lost_sync {
                if let Ok(key) = krill::commons::storage::Ident::from_str(&p.2) {
                    let _ = w.tasks_kv.execute(None, |kv| {
                        kv.delete(Some(pend), key)
                    });
                }
            }
        }
        r.count("restart_cases_with_lost_sync_entry", 1);
    }
    let pending_before: BTreeSet<String> = w.pending().into_iter()
        .map(|p| p.1).collect();
    r.distinct("restart_k", format!("{k}{}", if large { "L" } else { "" }));
    // "crash": drop the instance, start again on the same directory
    let mut w = w.restart();
    r.eval();
    let running: Vec<String> = w.running().into_iter().map(|p| p.1).collect();
    let pending: BTreeSet<String> = w.pending().into_iter().map(|p| p.1).collect();
    let mut lost = vec![];
    for name in &claimed {
        if !pending.contains(name) { lost.push(name.clone()) }
    }
    for name in &pending_before {
        if !pending.contains(name) && !claimed.contains(name) {
            lost.push(format!("(pending) {name}"));
        }
    }
    let wit = json!({"k": k, "large": large, "claimed": claimed,
                     "running_after": running, "pending_after": pending,
                     "lost_sync_entry": lost_sync});
    if !lost.is_empty() {
        return Some((
            format!("restart-leaves-running:k={k}"),
            format!("daemon stopped with {k} task(s) running {claimed:?}; \
                     after start-up not pending again: {lost:?} \
                     (still running: {running:?})"),
            wit,
        ))
    }
    // run the start task and everything due; recurring tasks must exist
    let (runs, ok) = w.quiesce();
    for run in &runs {
        if let Some(f) = run.fatal() {
            return Some(("daemon-would-exit-after-restart".into(),
                         format!("{}: {f}", run.name()), wit))
        }
    }
    r.eval();
    if !ok {
        return Some((
            format!("restart-queue-never-idle:k={k}"),
            format!("after restart with {k} running tasks the queue does not \
                     become idle; running {:?}", w.running()),
            wit,
        ))
    }
    let executed: BTreeSet<String> = w.step_log.iter().flatten().cloned().collect();
    let present: BTreeSet<String> = w.pending().into_iter().map(|p| p.1)
        .chain(w.running().into_iter().map(|p| p.1)).collect();
    let mut recurring = vec![
        "all_cas_republish_if_needed".to_string(),
        "all_cas_renew_objects_if_needed".to_string(),
        "update_stored_snapshots".to_string(),
        "sync_a_with_parent_ta".to_string(),
        "sync_b_with_parent_a".to_string(),
    ];
    if large {
        for i in 0..5 { recurring.push(format!("sync_x{i}_with_parent_ta")) }
    }
    let missing: Vec<String> = recurring.drain(..)
        .filter(|n| !present.contains(n)).collect();
    r.count("recurring_checks", 1);
    if !missing.is_empty() {
        return Some((
            "recurring-task-missing-after-start".into(),
            format!("after start-up and its start task, recurring tasks are \
                     not scheduled: {missing:?}"),
            wit,
        ))
    }
    // every interrupted task ran again
    for name in &claimed {
        if !executed.contains(name) {
            return Some((
                "interrupted-task-not-executed".into(),
                format!("{name} was running at the crash and did not run \
                         again after restart"),
                wit,
            ))
        }
    }
    // and the follow-up of the committed ROA change is visible
    if let Some(obs) = oracle::observe(&w) {
        let vrps = obs.view.vrps();
        if !vrps.contains(&(65001, "10.0.0.0/24".into(), 25)) {
            return Some((
                "committed-change-not-published-after-restart".into(),
                format!("VRPs {vrps:?} lack the ROA committed before the stop"),
                wit,
            ))
        }
    }
    drop(w);
    let _ = std::fs::remove_dir_all(&dir);
    None
}

//============ Part D =========================================================

/// The REAL start-up path (`StartupManager::run_scheduler` + the real
/// scheduler thread) on a directory left behind by a daemon that was killed
/// with k tasks running - optionally with the start task itself among them.
/// Afterwards nothing may be stuck in `running`, every recurring task must
/// be scheduled, and the change committed before the stop must be published.
fn real_startup_case(
    r: &mut Report, args: &Args, k: usize, with_start_task: bool,
    rng: &mut Rng,
) -> Option<(String, String, Value)> {
    use krill::server::manager::StartupManager;
    let dir = args.work.join(format!("realstart{k}"));
    let cfg = WorldCfg::new(&dir);
    let mut w = World::create(cfg.clone());
    for op in [
        Op::AddCa { ca: "a".into(), parent: "ta".into(),
            asn: "AS65000-AS65005".into(), v4: "10.0.0.0/16".into(),
            v6: "".into() },
        Op::Quiesce,
        Op::AddCa { ca: "b".into(), parent: "a".into(), asn: "AS65001".into(),
            v4: "10.0.0.0/24".into(), v6: "".into() },
        Op::Quiesce,
        Op::RoaDelta { ca: "b".into(), add: vec!["10.0.0.0/24 => 65001".into()],
            remove: vec![] },
        Op::Quiesce,
    ] {
        let out = hist::apply(&mut w, &op);
        if !out.is_ok() {
            r.inconclusive(format!("real start-up case setup: {out:?}"));
            return None
        }
    }
    let _ = hist::apply(&mut w, &Op::RoaDelta {
        ca: "b".into(), add: vec!["10.0.0.0/24-25 => 65001".into()],
        remove: vec![] });
    let mut candidates = vec![
        Task::RepublishIfNeeded, Task::RenewObjectsIfNeeded,
        Task::SyncRepo { ca_handle: h("b"), ca_version: 0 },
        Task::UpdateSnapshots, Task::RrdpUpdateIfNeeded,
        Task::SyncRepo { ca_handle: h("a"), ca_version: 0 },
    ];
    rng.shuffle(&mut candidates);
    for t in candidates.iter().take(k) {
        w.krill.tasks().schedule(t.clone(), krill::server::mq::now())
            .expect("schedule");
    }
    if with_start_task {
        w.krill.tasks().schedule(Task::QueueStartTasks, krill::server::mq::now())
            .expect("schedule start task");
    }
    w.advance_ms(1500);
    let mut claimed: Vec<String> = vec![];
    for _ in 0..k {
        // never claim the start task here; it is claimed below
        let key = w.pending().into_iter()
            .filter(|p| p.0 <= w.queue_now_ms() && p.1 != "queue_start_tasks")
            .map(|p| (p.1, p.2)).next();
        if let Some((name, key)) = key {
            if w.claim_only(&key) { claimed.push(name) }
        }
    }
    if with_start_task {
        let key = w.pending().into_iter()
            .find(|p| p.1 == "queue_start_tasks").map(|p| p.2);
        match key {
            Some(key) if w.claim_only(&key) => {
                claimed.push("queue_start_tasks".into())
            }
            _ => {
                r.inconclusive("start task could not be claimed");
                return None
            }
        }
    }
    r.distinct("real_start_k",
               format!("{k}{}", if with_start_task { "+start" } else { "" }));
    drop(w); // the "kill"

    let wit = json!({"k": k, "with_start_task": with_start_task,
                     "claimed": claimed, "part": "D"});
    let rt = tokio::runtime::Builder::new_multi_thread().worker_threads(2)
        .enable_all().build().expect("tokio");
    let config = cfg.config();
    let storage = StorageSystem::new(config.storage_uri.clone());
    let view = StorageSystem::new(config.storage_uri.clone());
    // everything claimed before this instant was claimed before the kill
    let t_start_q = w_now_ms();
    let mut startup = match StartupManager::new(
        config, storage, rt.handle().clone()
    ) {
        Ok(s) => s,
        Err(e) => { r.inconclusive(format!("startup: {e}")); return None }
    };
    if let Err(e) = startup.run_scheduler() {
        return Some(("real-start-up-fails".into(),
                     format!("run_scheduler on the crashed directory: {e}"),
                     wit))
    }
    let (manager, pool) = match startup.promote() {
        Ok(x) => x,
        Err(e) => { r.inconclusive(format!("promote: {e}")); return None }
    };
    let state = |view: &StorageSystem| -> (Vec<(u128, String)>, Vec<(u128, String)>) {
        let kv = match view.open(Ident::from_str("tasks").unwrap()) {
            Ok(kv) => kv, Err(_) => return (vec![], vec![]),
        };
        let l = |scope: &str| -> Vec<(u128, String)> {
            kv.keys(Some(Ident::from_str(scope).unwrap()), "")
                .unwrap_or_default().into_iter().filter_map(|k| {
                    let (ts, name) = k.as_str().split_once('-')?;
                    Some((ts.parse().ok()?, name.to_string()))
                }).collect()
        };
        (l("pending"), l("running"))
    };
    let recurring = [
        "all_cas_republish_if_needed", "all_cas_renew_objects_if_needed",
        "update_stored_snapshots", "sync_a_with_parent_ta",
        "sync_b_with_parent_a",
    ];
    // bounded progress, decided on the queue's state and not on the clock:
    // the scheduler is watched for up to 60 s of wall time; the verdict is
    // "violated" only when the queue is IDLE (nothing due, nothing claimed
    // since the start) and yet an entry claimed before the kill is still
    // in `running` or a recurring task is missing. Still busy at the end of
    // the watch = inconclusive.
    let start = std::time::Instant::now();
    let mut last: Option<(Vec<String>, Vec<String>, bool)> = None;
    let mut calm = 0;
    let mut idle_bad = 0;
    while start.elapsed() < std::time::Duration::from_secs(60) {
        let (pending, running) = state(&view);
        let missing: Vec<String> = recurring.iter()
            .filter(|n| !pending.iter().any(|p| &p.1 == *n)
                        && !running.iter().any(|x| &x.1 == *n))
            .map(|s| s.to_string()).collect();
        let now = w_now_ms();
        let due = pending.iter().filter(|p| p.0 <= now).count();
        let stale: Vec<String> = running.iter()
            .filter(|x| x.0 < t_start_q).map(|x| x.1.clone()).collect();
        let fresh_running = running.len() - stale.len();
        let idle = due == 0 && fresh_running == 0;
        last = Some((stale.clone(), missing.clone(), idle));
        if idle && stale.is_empty() && missing.is_empty() {
            calm += 1;
            if calm >= 3 { break }
        } else {
            calm = 0;
        }
        if idle && (!stale.is_empty() || !missing.is_empty()) {
            idle_bad += 1;
            // idle and wrong for 5 s: nothing will change any more
            if idle_bad >= 16 { break }
        } else {
            idle_bad = 0;
        }
        std::thread::sleep(std::time::Duration::from_millis(300));
    }
    let _ = manager;
    pool.terminate();
    drop(rt);
    r.eval();
    r.count("real_startups", 1);
    match last {
        Some((stale, missing, _)) if stale.is_empty() && missing.is_empty() => {}
        Some((stale, missing, true)) => {
            let sig = if !missing.is_empty() {
                "real-start-up:recurring-task-missing"
            } else {
                "real-start-up:task-stuck-running"
            };
            return Some((
                format!("{sig}:{}", if with_start_task { "start-task-was-running" }
                                    else { "k-running" }),
                format!("daemon killed with {claimed:?} running; after the \
                         real start-up (run_scheduler + scheduler thread) \
                         the queue is idle, yet still in 'running' from \
                         before the kill: {stale:?}, recurring tasks not \
                         scheduled: {missing:?}"),
                wit,
            ))
        }
        Some((stale, missing, false)) => {
            r.inconclusive(format!("real start-up still busy after 60 s \
                (stale {stale:?}, missing {missing:?})"));
            return None
        }
        None => { r.inconclusive("real start-up: no observation"); return None }
    }
    // the change committed before the kill is published
    let w = World::open_raw(cfg);
    if let Some(obs) = oracle::observe(&w) {
        let vrps = obs.view.vrps();
        if !vrps.contains(&(65001, "10.0.0.0/24".into(), 25)) {
            return Some((
                "real-start-up:committed-change-not-published".into(),
                format!("VRPs {vrps:?} lack the ROA committed before the kill"),
                wit,
            ))
        }
    }
    drop(w);
    let _ = std::fs::remove_dir_all(&dir);
    None
}

//============ Part E =========================================================

/// A committed change whose follow-up has the SAME queue name as a task that
/// is being executed at that moment. In the daemon the scheduler thread is
/// between claiming a task and completing it (finish / follow-up /
/// reschedule) while a request served by a worker thread commits: a
/// publication by a remote publisher while `update_rrdp_if_needed` runs, a
/// CA command while that CA's repository synchronisation runs, a request
/// created (or the parent changing the child's entitlement) while the
/// child's parent synchronisation runs. The follow-up must not be lost to
/// "there is already such a task": the queue alone has to make the change
/// visible. `before` puts the commit before the task's work (it may then be
/// picked up by the running task), otherwise between its work and its
/// completion.
fn overlap_case(
    r: &mut Report, args: &Args, variant: &str, before: bool,
) -> Option<(String, String, Value)> {
    let dir = args.work.join(format!("overlap_{variant}_{before}"));
    let _ = std::fs::remove_dir_all(&dir);
    let mut w = World::create(WorldCfg::new(&dir));
    for op in [
        Op::AddCa { ca: "a".into(), parent: "ta".into(),
            asn: "AS65000-AS65005".into(), v4: "10.0.0.0/16".into(),
            v6: "".into() },
        Op::Quiesce,
        Op::AddCa { ca: "b".into(), parent: "a".into(), asn: "AS65001".into(),
            v4: "10.0.0.0/24".into(), v6: "".into() },
        Op::Quiesce,
        Op::RoaDelta { ca: "b".into(), add: vec!["10.0.0.0/24 => 65001".into()],
            remove: vec![] },
        Op::RawPublisher { publisher: "rp".into() },
        Op::RawPublish { publisher: "rp".into(), name: "x.bin".into(), fill: 1 },
        Op::Quiesce,
    ] {
        let out = hist::apply(&mut w, &op);
        if !out.is_ok() {
            r.inconclusive(format!("overlap case setup: {out:?}"));
            return None
        }
    }
    let wit = json!({"part": "E", "variant": variant, "commit_before_work": before});
    // the change that makes the victim task pending, the victim's name, and
    // the overlapping commit
    let (prime, victim, commit): (Vec<Op>, &str, Vec<Op>) = match variant {
        "rrdp" => (
            vec![Op::RawPublish { publisher: "rp".into(), name: "y.bin".into(), fill: 2 }],
            "update_rrdp_if_needed",
            vec![Op::RawPublish { publisher: "rp".into(), name: "z.bin".into(), fill: 3 }],
        ),
        "rrdp-withdraw" => (
            vec![Op::RawPublish { publisher: "rp".into(), name: "y.bin".into(), fill: 2 }],
            "update_rrdp_if_needed",
            vec![Op::RawWithdraw { publisher: "rp".into(), name: "x.bin".into() }],
        ),
        "repo" => (
            vec![Op::RoaDelta { ca: "b".into(),
                add: vec!["10.0.0.0/24-25 => 65001".into()], remove: vec![] }],
            "sync_repo_b",
            vec![Op::RoaDelta { ca: "b".into(),
                add: vec!["10.0.0.0/24-26 => 65001".into()], remove: vec![] }],
        ),
        "parent-entitlement" => (
            vec![Op::SyncParent { ca: "b".into() }],
            "sync_b_with_parent_a",
            vec![Op::ChildUpdate { parent: "a".into(), child: "b".into(),
                asn: "AS65001".into(), v4: "10.0.0.0/24, 10.0.2.0/24".into(),
                v6: "".into() }],
        ),
        "parent-request" => (
            vec![Op::SyncParent { ca: "b".into() }],
            "sync_b_with_parent_a",
            vec![Op::RollInit { ca: "b".into() }],
        ),
        _ => unreachable!(),
    };
    for op in &prime {
        let out = hist::apply(&mut w, op);
        if !out.is_ok() {
            r.inconclusive(format!("overlap {variant}: priming {out:?}"));
            return None
        }
    }
    // run whatever is due before the victim (e.g. the repository
    // synchronisation that precedes an RRDP update) without running it
    let mut guard = 0;
    let key = loop {
        guard += 1;
        if guard > 60 {
            r.inconclusive(format!("overlap {variant}: {victim} never pending"));
            return None
        }
        let pend = w.pending();
        let now = w.queue_now_ms();
        let others_due: Vec<String> = pend.iter()
            .filter(|p| p.0 <= now && p.1 != victim)
            .map(|p| p.2.clone()).collect();
        if let Some(k) = others_due.first() {
            let _ = w.step_directed(k);
            continue
        }
        match pend.iter().find(|p| p.1 == victim) {
            Some(p) if p.0 <= now => break p.2.clone(),
            Some(_) | None => { w.advance_ms(1000); }
        }
    };
    let Some((rkey, value)) = w.claim_directed(&key) else {
        r.inconclusive(format!("overlap {variant}: cannot claim {victim}"));
        return None
    };
    r.eval();
    r.nontrivial(format!("overlap|{variant}|{}", if before { "before-work" } else { "before-completion" }));
    let mut commit_out = vec![];
    let run = if before {
        for op in &commit { commit_out.push(hist::apply(&mut w, op)); }
        w.process_claimed(rkey, value)
    } else {
        let outs = std::cell::RefCell::new(vec![]);
        let run = w.process_claimed_with(rkey, value, |w| {
            for op in &commit { outs.borrow_mut().push(hist::apply(w, op)); }
        });
        commit_out = outs.into_inner();
        run
    };
    if let Some(o) = commit_out.iter().find(|o| !o.is_ok()) {
        r.inconclusive(format!("overlap {variant}: overlapping commit {o:?}"));
        return None
    }
    if let Some(f) = run.fatal() {
        return Some((
            format!("overlap:daemon-would-exit:{variant}"),
            format!("{} was being executed while {:?} was committed by \
                     another request; completing the task: {f}", run.name(), commit),
            wit,
        ))
    }
    // the queue alone
    let (runs, ok) = w.quiesce();
    for run in &runs {
        if let Some(f) = run.fatal() {
            return Some((
                format!("overlap:daemon-would-exit-later:{variant}"),
                format!("{}: {f}", run.name()), wit))
        }
    }
    if !ok {
        r.inconclusive(format!("overlap {variant}: queue not idle"));
        return None
    }
    r.eval();
    r.count("overlap_cases", 1);
    let bad = |what: String| Some((
        format!("overlap:follow-up-lost:{variant}"),
        format!("{victim} was being executed ({}) while {:?} was committed; \
                 the queue became idle but {what}",
                if before { "commit before its work" } else { "commit between its work and its completion" },
                commit),
        wit.clone(),
    ));
    // RRDP and rsync carry what the server holds
    let files = w.publisher_files();
    match rrdpview::read_rrdp(&w.repo_dir()) {
        Err(e) => return bad(format!("RRDP unreadable: {e}")),
        Ok(st) => {
            let snap: BTreeMap<String, u64> = st.snapshot.iter()
                .map(|(u, b)| (u.clone(), kvh::util::fnv(b))).collect();
            let held: BTreeMap<String, u64> = files.iter()
                .map(|(u, b)| (u.clone(), kvh::util::fnv(b))).collect();
            if snap != held {
                let diff: Vec<&String> = held.keys()
                    .filter(|u| snap.get(*u) != held.get(*u))
                    .chain(snap.keys().filter(|u| !held.contains_key(*u)))
                    .take(4).collect();
                return bad(format!("the RRDP snapshot (serial {}) differs from \
                                    the server content: {diff:?}", st.serial))
            }
        }
    }
    if oracle::has_open_requests(&w) {
        return bad("a CA still has an open request".into())
    }
    // configured ROA objects are in the repository, and validate
    if let Ok(c) = w.krill.ca_manager().get_ca(&h("b")) {
        for conf in c.configured_roas() {
            for obj in &conf.roa_objects {
                let uri = obj.uri.to_string();
                if !files.get(&uri).map(|b| obj.hash.matches(b)).unwrap_or(false) {
                    return bad(format!("b's object {uri} is not in the repository"))
                }
            }
        }
    }
    if let Some(obs) = oracle::observe(&w) {
        let (issues, _) = oracle::c01_check(&w, &obs);
        if let Some((s, d)) = issues.first() {
            return bad(format!("the tree is not exact: {s}: {d}"))
        }
    }
    if variant == "parent-entitlement" {
        let info = w.ca_info("b").unwrap_or(Value::Null).to_string();
        if !info.contains("10.0.2.0/24") {
            return bad(format!("b never picked up its grown entitlement: {}",
                               &info[..info.len().min(300)]))
        }
    }
    if variant == "parent-request" {
        let roles = oracle::key_roles(&w, "b");
        if !roles.classes.values().any(|(_, st)| *st == "roll_new") {
            return bad(format!("b's new key was never certified: {:?}", roles.classes))
        }
    }
    drop(w);
    let _ = std::fs::remove_dir_all(&dir);
    None
}

/// The queue's notion of now (real clock + verif offset) in ms.
fn w_now_ms() -> u128 {
    let real = std::time::SystemTime::now()
        .duration_since(std::time::UNIX_EPOCH).unwrap().as_millis();
    (real as i128 + krill::verif::queue_clock_offset_ms() as i128) as u128
}

//============ Part B =========================================================

#[derive(Default)]
struct FollowUps;

impl Monitor for FollowUps {
    fn after_op(
        &mut self, w: &mut World, op: &Op, outcome: &Outcome, ctx: &Ctx,
        r: &mut Report,
    ) -> Vec<Issue> {
        if ctx.in_setup && ctx.op_idx + 1 != ctx.n_setup { return vec![] }
        if matches!(op, Op::Pump { .. }) { return vec![] }
        // only queue quiescence; no manual synchronisation rounds
        let (runs, ok) = w.quiesce();
        for run in &runs {
            if let Some(f) = run.fatal() {
                return vec![(
                    format!("daemon-would-exit@{}",
                            run.name().split(':').next().unwrap()),
                    format!("{}: {f}", run.name()),
                )]
            }
        }
        if !ok {
            r.inconclusive(format!("queue not idle after {}", op.kind()));
            return vec![]
        }
        let mut issues = vec![];
        r.eval();
        r.nontrivial(format!("followup|{}|{}", op.kind(), outcome.is_ok()));
        // request created => parent synchronisation ran
        if oracle::has_open_requests(w) {
            // open requests towards the TA wait for the signer task, which
            // quiesce runs as well; anything left is a missing follow-up
            issues.push((
                format!("request-not-followed-up@{}", op.kind()),
                "a CA still has an open certificate/revocation request \
                 although the task queue is idle".to_string(),
            ));
        }
        // publication => RRDP update: what the server holds is what the
        // RRDP snapshot and the rsync tree on disk carry
        let files = w.publisher_files();
        match rrdpview::read_rrdp(&w.repo_dir()) {
            Err(e) => issues.push((
                format!("rrdp-unreadable@{}", op.kind()), e)),
            Ok(st) => {
                r.count("rrdp_comparisons", 1);
                let snap: BTreeMap<String, u64> = st.snapshot.iter()
                    .map(|(u, b)| (u.clone(), kvh::util::fnv(b))).collect();
                let held: BTreeMap<String, u64> = files.iter()
                    .map(|(u, b)| (u.clone(), kvh::util::fnv(b))).collect();
                if snap != held {
                    let diff: Vec<&String> = held.keys()
                        .filter(|u| snap.get(*u) != held.get(*u))
                        .chain(snap.keys().filter(|u| !held.contains_key(*u)))
                        .take(4).collect();
                    issues.push((
                        format!("publication-not-in-rrdp@{}", op.kind()),
                        format!("RRDP snapshot (serial {}) differs from the \
                                 publication server content although the \
                                 queue is idle: {diff:?}", st.serial),
                    ));
                }
            }
        }
        // class removed / key retired => the revocation was sent and the
        // parent no longer publishes a certificate for a key nobody holds
        if let Some(obs) = oracle::observe(w) {
            r.count("dropped_key_checks", 1);
            for (s, d) in oracle::dropped_key_issues(w, &obs) {
                issues.push((format!("{s}@{}", op.kind()), d));
            }
        }
        // key activated => revocation of the old key requested and done
        if let (Op::RollActivate { ca }, Outcome::Ok) = (op, outcome) {
            let roles = oracle::key_roles(w, ca);
            // classes whose parent still knows this CA
            for (rcn, (parent, state)) in &roles.classes {
                let known = parent == "ta"
                    || w.krill.ca_manager().ca_show_child(
                        &h(parent), &h(ca).convert()).is_ok();
                if known && *state == "roll_old" {
                    issues.push((
                        "old-key-not-revoked-after-activation".into(),
                        format!("{ca} class {rcn}: still in the old-key \
                                 state although the queue is idle"),
                    ));
                }
            }
        }
        // object change => repository synchronisation: API-reported ROA
        // objects are in the repository
        for ca in w.ca_handles() {
            if ca == "ta" { continue }
            if let Ok(c) = w.krill.ca_manager().get_ca(&h(&ca)) {
                for conf in c.configured_roas() {
                    for obj in &conf.roa_objects {
                        let uri = obj.uri.to_string();
                        let ok = files.get(&uri)
                            .map(|b| obj.hash.matches(b)).unwrap_or(false);
                        if !ok {
                            issues.push((
                                format!("object-change-not-synchronised@{}", op.kind()),
                                format!("{ca}: {uri} is not in the repository \
                                         although the queue is idle"),
                            ));
                        }
                    }
                }
            }
        }
        issues
    }
}

fn history(r: &mut Report, args: &Args, idx: u64, seed: u64,
           replay: Option<(Vec<Op>, Option<Vec<Option<String>>>)>) -> bool {
    let mut rng = Rng::new(seed);
    let n_random = if args.thorough() { rng.range(25, 50) }
        else { rng.range(10, 16) } as usize;
    let cfg = WorldCfg::new(args.work.join(format!("h{idx}")));
    let mut script = hist::standard_forest(false);
    let n_setup = script.len();
    if idx % 3 == 0 && replay.is_none() {
        // three classes under one parent, two of them removed at once
        script.extend(oracle::three_classes_script());
    }
    let mut m = FollowUps;
    let (replay, replay_steps) = match replay {
        Some((o, s)) => (Some(o), s), None => (None, None)
    };
    runner::run(r, args, RunCfg {
        idx, seed, world: cfg,
        desc: json!({"part": "B", "seed": seed}),
        script, n_setup, n_random,
        profile: Profile::general(), replay, replay_steps, keep_dir: false,
    }, &mut m).clean
}

fn main() {
    let args = Args::parse();
    let mut r = Report::new("C09", &args);
    if let Some(path) = &args.replay {
        let doc: Value = serde_json::from_slice(
            &std::fs::read(path).expect("read")).expect("json");
        if doc["witness"]["ops"].is_array() {
            let (ops, seed, _, steps) = runner::load_replay(path);
            let ok = history(&mut r, &args, 99, seed, Some((ops, steps)));
            println!("replay: {}", if ok { "no violation" }
                     else { "violation reproduced" });
        } else if let Some(k) = doc["witness"]["k"].as_u64() {
            let mut rng = Rng::new(doc["seed"].as_u64().unwrap_or(1));
            let large = doc["witness"]["large"].as_bool().unwrap_or(false);
            let res = restart_case(&mut r, &args, k as usize, &mut rng, large);
            println!("replay: {}", if res.is_none() { "no violation" }
                     else { "violation reproduced" });
        } else {
            println!("replay: queue traces are re-run by seed: use --seed/--shard");
        }
        r.write();
        return
    }
    let mut rng = Rng::new(args.shard_seed());
    // Part A first for a fixed number of cases (the world-building parts
    // below take most of the budget on a loaded machine), more at the end
    let mut case = 0u64;
    for _ in 0..400 {
        case += 1;
        if let Some((sig, detail, wit)) = queue_case(&mut r, &args, case, &mut rng) {
            r.violation(&sig, &detail, wit);
        }
    }
    // Part C: restart with k running tasks; k spread over the shards
    let ks = [0usize, 1, 2, 3, 5];
    let my_k = ks[(args.shard as usize) % ks.len()];
    // shards 1, 4, 7: an instance with more than five CAs
    let large = args.shard % 3 == 1;
    if let Some((sig, detail, wit)) =
        restart_case(&mut r, &args, my_k, &mut rng, large)
    {
        r.violation(&sig, &detail, wit);
    }
    // Part D: the real start-up path on a killed daemon's directory
    let with_start = args.shard % 2 == 1;
    let kd = [1usize, 0, 2, 1, 3][(args.shard as usize / 2) % 5];
    if let Some((sig, detail, wit)) =
        real_startup_case(&mut r, &args, kd, with_start, &mut rng)
    {
        r.violation(&sig, &detail, wit);
    }
    // Part E: a follow-up committed while its same-named task is running
    {
        let variants = ["rrdp", "repo", "parent-entitlement", "parent-request",
                        "rrdp-withdraw"];
        let n = variants.len() * 2;
        // two cases per shard in quick, all ten in thorough
        let per = if args.thorough() { n } else { 2 };
        for j in 0..per {
            let i = (args.shard as usize * 2 + j) % n;
            if let Some((sig, detail, wit)) =
                overlap_case(&mut r, &args, variants[i / 2], i % 2 == 0)
            {
                r.violation(&sig, &detail, wit);
            }
        }
    }
    // Part A and B alternate until the budget is used
    let mut hist_idx = 0u64;
    while r.within_budget() {
        for _ in 0..40 {
            case += 1;
            if let Some((sig, detail, wit)) = queue_case(&mut r, &args, case, &mut rng) {
                r.violation(&sig, &detail, wit);
            }
        }
        if !r.within_budget() { break }
        if args.shard % 2 == 0 || args.thorough() {
            let seed = args.shard_seed().wrapping_mul(7919).wrapping_add(hist_idx);
            history(&mut r, &args, hist_idx, seed, None);
            hist_idx += 1;
        }
        let _ = std::fs::write(args.work.join("partial.json"),
            serde_json::to_vec(&r.to_json()).unwrap());
    }
    r.write();
}
