//! C02 — delegation follows entitlements, never over-claims, converges and
//! is idempotent. Observes every issuer publication (each repo sync task)
//! and every caught-up point of entitlement histories.

use std::collections::{BTreeMap, BTreeSet};
use kvh::hist::{self, Op, Outcome, Profile};
use kvh::oracle::{self, key_roles};
use kvh::runner::{self, Ctx, Issue, Monitor, RunCfg};
use kvh::util::{Args, Report, Rng};
use kvh::world::{h, Completion, TaskRun, World, WorldCfg};
use krill::api::ca::ChildState;
use krill::commons::eventsourcing::Aggregate;
use krill::server::mq::Task;
use rpki::repository::cert::Cert;
use rpki::repository::resources::ResourceSet;
use serde_json::json;

#[derive(Clone, Debug)]
struct ChildCert {
    uri: String,
    aki: String,
    ski: String,
    resources: ResourceSet,
}

/// CA certificates currently held by the publication server for `issuer`.
fn issuer_pub(w: &World, issuer: &str) -> Vec<ChildCert> {
    let mut res = vec![];
    let Ok(d) = w.krill.repo_manager().get_publisher_details(
        h(issuer).convert()
    ) else { return res };
    for f in d.current_files {
        let uri = f.uri.to_string();
        if !uri.ends_with(".cer") { continue }
        let Ok(cert) = Cert::decode(f.base64.to_bytes()) else { continue };
        if !cert.is_ca() { continue }
        let Some(aki) = cert.authority_key_identifier() else { continue };
        let Ok(resources) = ResourceSet::try_from(&cert) else { continue };
        res.push(ChildCert {
            uri, aki: aki.to_string(),
            ski: cert.subject_key_identifier().to_string(), resources,
        });
    }
    res
}

/// key id -> resources of the certificate the CA holds for that key.
fn held(w: &World, ca: &str) -> (BTreeMap<String, ResourceSet>, ResourceSet) {
    let mut map = BTreeMap::new();
    let mut active_union = ResourceSet::empty();
    if let Ok(c) = w.krill.ca_manager().get_ca(&h(ca)) {
        for rc in c.as_ca_info().resource_classes.values() {
            if let Some(k) = rc.keys.current_key() {
                map.insert(k.key_id.to_string(), k.incoming_cert.resources.clone());
                active_union = active_union.union(&k.incoming_cert.resources);
            }
            if let Some(k) = rc.keys.new_key() {
                map.insert(k.key_id.to_string(), k.incoming_cert.resources.clone());
            }
            if let krill::api::ca::ResourceClassKeysInfo::RollOld(o) = &rc.keys {
                map.insert(
                    o.old_key.key_id.to_string(),
                    o.old_key.incoming_cert.resources.clone()
                );
            }
        }
    }
    (map, active_union)
}

fn all_keys(w: &World, ca: &str) -> BTreeSet<String> {
    let r = key_roles(w, ca);
    r.active.iter().chain(r.new.iter()).chain(r.old.iter())
        .chain(r.pending.iter()).cloned().collect()
}

struct PrevPub {
    active_union: ResourceSet,
    held_map: BTreeMap<String, ResourceSet>,
    certs: Vec<ChildCert>,
    /// child -> its key ids at that time
    child_keys: BTreeMap<String, BTreeSet<String>>,
}

#[derive(Default)]
struct C02Monitor {
    prev: BTreeMap<String, PrevPub>,
    ta_entitlements: BTreeMap<String, ResourceSet>,
    converge_every: usize,
    since_converge: usize,
    /// no convergence rounds before this operation index (a script that is
    /// about what happens when a child does NOT synchronise in between)
    hold_until: usize,
    /// (issuer, child) pairs suspended by an operation since the issuer's
    /// last observed publication: their certificates were legitimately
    /// unpublished in between.
    suspended_since_pub: BTreeSet<(String, String)>,
    /// issuance monitor: (issuer, ski, serial) of child certificates seen in
    /// the issuers' own object stores, with their resources
    issued_seen: BTreeMap<(String, String, String), (ResourceSet, String)>,
    /// (issuer, child) -> entitlement at the previous observation
    prev_ent: BTreeMap<(String, String), ResourceSet>,
    /// issuer -> (key id -> certified resources) at the previous observation
    prev_held: BTreeMap<String, BTreeMap<String, ResourceSet>>,
    /// issuer -> (key id -> what the key's certificate held at EVERY
    /// observation since the issuer's last publication, i.e. the running
    /// intersection): a certificate of the issuer that shrank and grew again
    /// between two of its publications has cut the children's certificates
    /// down to the smallest value in between
    held_min_since_pub: BTreeMap<String, BTreeMap<String, ResourceSet>>,
}

impl C02Monitor {
    /// First clause of the statement, judged at the instant of issuance: a
    /// child certificate that appears in the issuer's object store (i.e.
    /// was issued by the single operation or task since the previous
    /// observation) carries exactly entitlement x issuing key's resources,
    /// taking either the value before or after that step for both; or it is
    /// a re-issue of the key's previous certificate cut down to what the
    /// issuing key holds, which must stay within the entitlement unless the
    /// issuing key's own certificate changed in that step.
    fn check_issuance(&mut self, w: &World, r: &mut Report) -> Vec<Issue> {
        let mut issues = vec![];
        let cas = w.ca_handles();
        for issuer in cas.iter().filter(|c| c.as_str() != "ta") {
            let (held_map, _) = held(w, issuer);
            let children = Self::children_of(w, issuer);
            let mut ent_now: BTreeMap<String, ResourceSet> = BTreeMap::new();
            let mut keys_of: BTreeMap<String, BTreeSet<String>> = BTreeMap::new();
            for ch in &children {
                if let Ok(info) = w.krill.ca_manager().ca_show_child(
                    &h(issuer), &h(ch).convert()
                ) {
                    ent_now.insert(ch.clone(), info.entitled_resources.clone());
                }
                keys_of.insert(ch.clone(), all_keys(w, ch));
            }
            let prev_held = self.prev_held.get(issuer.as_str()).cloned()
                .unwrap_or_default();
            let certs = oracle::stored_child_certs(w, issuer);
            for c in &certs {
                let id = (issuer.clone(), c.ski.clone(), c.serial.clone());
                if self.issued_seen.contains_key(&id) { continue }
                // a certificate issued since the previous observation
                let child = keys_of.iter()
                    .find(|(_, ks)| ks.contains(&c.ski)).map(|(n, _)| n.clone());
                let Some(child) = child else {
                    self.issued_seen.insert(id, (c.resources.clone(), c.aki.clone()));
                    continue
                };
                r.eval();
                r.count("issuances_judged", 1);
                let mut es: Vec<ResourceSet> = vec![];
                if let Some(e) = ent_now.get(&child) { es.push(e.clone()) }
                if let Some(e) = self.prev_ent.get(&(issuer.clone(), child.clone())) {
                    es.push(e.clone())
                }
                let mut rs_: Vec<ResourceSet> = vec![];
                if let Some(x) = held_map.get(&c.aki) { rs_.push(x.clone()) }
                if let Some(x) = prev_held.get(&c.aki) { rs_.push(x.clone()) }
                let issuer_changed = match (held_map.get(&c.aki), prev_held.get(&c.aki)) {
                    (Some(a), Some(b)) => a != b,
                    _ => true,
                };
                let mut ok = es.iter().any(|e| rs_.iter().any(|x| {
                    e.intersection(x) == c.resources
                }));
                if !ok {
                    // a RE-issue of the certificate the key had before
                    // (issuer shrink, key activation, un-suspension) carries
                    // the part that certificate and the issuing key's
                    // certificate both hold. That may be less than the
                    // present entitlement (the child catches up at its next
                    // synchronisation); it may exceed the present
                    // entitlement only when the issuer's own certificate
                    // changed in this step - the case for which the
                    // statement prescribes exactly this content - or when
                    // the certificates move to the activated key: in both
                    // cases that content was published all along. A
                    // certificate that was NOT published (suspended child)
                    // is a fresh issuance and must respect the entitlement.
                    let prev_certs: Vec<&(ResourceSet, String)> = self.issued_seen.iter()
                        .filter(|((i, ski, _), _)| i == issuer && *ski == c.ski)
                        .map(|(_, res)| res).collect();
                    let is_reissue = prev_certs.iter().any(|p| rs_.iter().any(|x| {
                        p.0.intersection(x) == c.resources
                    }));
                    // the issuing key is another one than before: the
                    // certificates move to the activated key as they are
                    let key_switch = !prev_certs.is_empty()
                        && prev_certs.iter().all(|p| p.1 != c.aki);
                    let within = es.iter().any(|e| e.contains(&c.resources));
                    ok = is_reissue && (within || issuer_changed || key_switch);
                    if ok { r.count("reissues_of_previous_content", 1) }
                }
                if !ok && (es.is_empty() || rs_.is_empty()) { ok = true }
                if !ok {
                    issues.push((
                        "issued-cert-not-entitlement-x-issuer".into(),
                        format!("{issuer} issued {} to {child} with [{}]; \
                                 entitlement (now/before) {:?}, issuing key \
                                 {} holds (now/before) {:?}",
                                c.name, c.resources,
                                es.iter().map(|e| e.to_string()).collect::<Vec<_>>(),
                                &c.aki[..8.min(c.aki.len())],
                                rs_.iter().map(|e| e.to_string()).collect::<Vec<_>>()),
                    ));
                } else {
                    r.nontrivial(format!("issued|{}|{}", es.first()
                        .map(|e| e.to_string()).unwrap_or_default(), c.resources));
                }
                self.issued_seen.insert(id, (c.resources.clone(), c.aki.clone()));
            }
            for (ch, e) in ent_now {
                self.prev_ent.insert((issuer.clone(), ch), e);
            }
            let mins = self.held_min_since_pub.entry(issuer.clone()).or_default();
            for (aki, res) in &held_map {
                let v = match mins.get(aki) {
                    Some(m) => m.intersection(res),
                    None => res.clone(),
                };
                mins.insert(aki.clone(), v);
            }
            self.prev_held.insert(issuer.clone(), held_map);
        }
        issues
    }

    fn children_of(w: &World, issuer: &str) -> Vec<String> {
        w.krill.ca_manager().get_ca(&h(issuer)).map(|c| {
            c.as_ca_info().children.iter().map(|c| c.to_string()).collect()
        }).unwrap_or_default()
    }

    /// Clause (ii): checked right after `issuer` synchronised its repository.
    fn check_publication(
        &mut self, w: &World, issuer: &str, r: &mut Report
    ) -> Vec<Issue> {
        let mut issues = vec![];
        let certs = issuer_pub(w, issuer);
        let (held_map, active_union) = held(w, issuer);
        r.eval();
        r.count("publications_observed", 1);
        for c in &certs {
            r.count("child_certs_checked", 1);
            if let Some(hk) = held_map.get(&c.aki) {
                if !hk.contains(&c.resources) {
                    issues.push((
                        "child-cert-overclaims-issuer".into(),
                        format!("{issuer} published {} with [{}] but holds \
                                 only [{}] for the issuing key {}",
                                c.uri, c.resources, hk, c.aki),
                    ));
                }
            }
        }
        if std::env::var("KVH_DEBUG2").is_ok() {
            eprintln!("PUB {issuer}: held={:?}", held_map.iter().map(|(k,v)| format!("{}:{}", &k[..6], v)).collect::<Vec<_>>());
            for c in &certs { eprintln!("    cert ski={} aki={} [{}]", &c.ski[..6], &c.aki[..6], c.resources); }
            for ch in Self::children_of(w, issuer) {
                let st = w.krill.ca_manager().ca_show_child(&h(issuer), &h(&ch).convert()).map(|i| format!("{:?} [{}]", i.state, i.entitled_resources)).unwrap_or_default();
                eprintln!("    child {ch}: {st} keys={:?}", key_roles(w, &ch));
            }
            let names: Vec<String> = w.task_log.iter().rev().take(6).map(|t| format!("{}={:?}", t.name(), t.completion)).collect();
            eprintln!("    last tasks {names:?}");
        }
        let children = Self::children_of(w, issuer);
        let mut child_keys = BTreeMap::new();
        for c in &children {
            child_keys.insert(c.clone(), all_keys(w, c));
        }
        if let Some(prev) = self.prev.get(issuer) {
            let shrunk = prev.active_union != active_union
                && !active_union.contains(&prev.active_union);
            if shrunk {
                r.count("issuer_shrinks_observed", 1);
                for pc in &prev.certs {
                    // owner of the certificate
                    let Some((child, keys_then)) = prev.child_keys.iter()
                        .find(|(_, ks)| ks.contains(&pc.ski)) else { continue };
                    if !children.contains(child) { continue }
                    if self.suspended_since_pub.contains(
                        &(issuer.to_string(), child.clone())
                    ) { continue }
                    if !w.krill.ca_manager().has_ca(&h(child)).unwrap_or(false) {
                        continue
                    }
                    if !kvh::hist::Gen::parents_of(w, child)
                        .contains(&issuer.to_string()) { continue }
                    let keys_now = all_keys(w, child);
                    if &keys_now != keys_then { continue }
                    let Ok(info) = w.krill.ca_manager().ca_show_child(
                        &h(issuer), &h(child).convert()
                    ) else { continue };
                    if info.state != ChildState::Active { continue }
                    // per issuing key: a certificate can only carry what
                    // the key that signs it holds
                    let (Some(hk_now), Some(hk_then)) = (
                        held_map.get(&pc.aki), prev.held_map.get(&pc.aki)
                    ) else { continue };
                    if hk_now == hk_then || hk_now.contains(hk_then) {
                        continue
                    }
                    let hk_min = self.held_min_since_pub.get(issuer)
                        .and_then(|m| m.get(&pc.aki))
                        .map(|m| m.intersection(hk_now))
                        .unwrap_or_else(|| hk_now.clone());
                    let expected_min = pc.resources
                        .intersection(&info.entitled_resources)
                        .intersection(&hk_min);
                    r.count("replacement_checks", 1);
                    r.nontrivial(format!(
                        "shrink|{}|{}|{}", active_union,
                        info.entitled_resources, pc.resources
                    ));
                    if expected_min.is_empty() { continue }
                    match certs.iter().find(|c| c.ski == pc.ski) {
                        None => issues.push((
                            "child-cert-not-replaced-on-issuer-shrink".into(),
                            format!(
                                "{issuer}'s resources shrank to [{}]; active \
                                 child {child} (entitled [{}], previous \
                                 certificate [{}]) has no certificate in \
                                 {issuer}'s first publication afterwards, \
                                 expected at least [{}]",
                                active_union, info.entitled_resources,
                                pc.resources, expected_min),
                        )),
                        Some(c) => {
                            if !c.resources.contains(&expected_min) {
                                issues.push((
                                    "child-cert-replacement-too-small".into(),
                                    format!(
                                        "{issuer} -> {child}: replacement \
                                         [{}] lacks part of [{}]",
                                        c.resources, expected_min),
                                ));
                            }
                        }
                    }
                }
            }
        }
        self.held_min_since_pub.insert(issuer.to_string(), held_map.clone());
        self.prev.insert(issuer.to_string(), PrevPub {
            active_union, held_map, certs, child_keys,
        });
        self.suspended_since_pub.retain(|(i, _)| i != issuer);
        issues
    }

    /// Clause (ii) at queue quiescence: whatever made an issuer's certificate
    /// shrink has been processed together with everything it triggered, but
    /// no child has been asked to call in yet - a published child
    /// certificate must not exceed the certificate the issuer holds for the
    /// issuing key ("without waiting for the child"). This also sees an
    /// issuer that did not publish anything at all after its certificate
    /// shrank, which the per-publication monitor cannot.
    fn check_quiescent_containment(
        &self, w: &World, r: &mut Report
    ) -> Vec<Issue> {
        let mut issues = vec![];
        for issuer in w.ca_handles() {
            if issuer == "ta" { continue }
            let certs = issuer_pub(w, &issuer);
            if certs.is_empty() { continue }
            let (held_map, _) = held(w, &issuer);
            r.eval();
            r.count("quiescent_containment_checks", 1);
            for c in &certs {
                if let Some(hk) = held_map.get(&c.aki) {
                    if !hk.contains(&c.resources) {
                        issues.push((
                            "child-cert-overclaims-issuer-at-quiescence".into(),
                            format!("the queue is idle and {issuer} still \
                                     publishes {} with [{}] while it holds only \
                                     [{}] for the issuing key {}",
                                    c.uri, c.resources, hk, c.aki),
                        ));
                    }
                }
            }
        }
        issues
    }

    /// Clause (iii): at a caught-up point every child holds exactly what it
    /// is entitled to, per class, and the parent publishes exactly that.
    fn check_converged(&self, w: &World, r: &mut Report) -> Vec<Issue> {
        let mut issues = vec![];
        for ca in w.ca_handles() {
            if ca == "ta" { continue }
            let Ok(c) = w.krill.ca_manager().get_ca(&h(&ca)) else { continue };
            let info = c.as_ca_info();
            for p in &info.parents {
                let parent = p.handle.to_string();
                // entitlement and issuer classes
                let (entitled, issuer_classes): (ResourceSet, Vec<ResourceSet>) =
                if parent == "ta" {
                    match self.ta_entitlements.get(&ca) {
                        Some(e) => (e.clone(), vec![ResourceSet::all()]),
                        None => continue,
                    }
                } else {
                    let Ok(ci) = w.krill.ca_manager().ca_show_child(
                        &h(&parent), &h(&ca).convert()
                    ) else {
                        // not (any more) a child of that parent; the child
                        // cannot learn this other than by being refused
                        continue
                    };
                    if ci.state != ChildState::Active { continue }
                    let Ok(pc) = w.krill.ca_manager().get_ca(&h(&parent))
                        else { continue };
                    let classes = pc.as_ca_info().resource_classes.values()
                        .filter_map(|rc| rc.keys.current_key())
                        .map(|k| k.incoming_cert.resources.clone()).collect();
                    (ci.entitled_resources, classes)
                };
                let mut expected: Vec<String> = issuer_classes.iter()
                    .map(|hk| entitled.intersection(hk))
                    .filter(|s| !s.is_empty()).map(|s| s.to_string())
                    .collect();
                expected.sort();
                let mut actual: Vec<String> = vec![];
                let mut uncertified = false;
                let mut active_keys: Vec<(String, ResourceSet)> = vec![];
                for rc in info.resource_classes.values() {
                    if rc.parent_handle.as_str() != parent { continue }
                    match rc.keys.current_key() {
                        Some(k) => {
                            actual.push(k.incoming_cert.resources.to_string());
                            active_keys.push((
                                k.key_id.to_string(),
                                k.incoming_cert.resources.clone()
                            ));
                        }
                        None => uncertified = true,
                    }
                    if let Some(n) = rc.keys.new_key() {
                        if let Some(k) = rc.keys.current_key() {
                            if n.incoming_cert.resources
                                != k.incoming_cert.resources
                            {
                                issues.push((
                                    "new-key-resources-differ".into(),
                                    format!("{ca} under {parent}: new key \
                                             [{}] vs active [{}]",
                                            n.incoming_cert.resources,
                                            k.incoming_cert.resources),
                                ));
                            }
                        }
                    }
                }
                actual.sort();
                r.eval();
                r.count("convergence_checks", 1);
                r.nontrivial(format!("conv|{parent}|{entitled}|{actual:?}"));
                if uncertified && !expected.is_empty() {
                    issues.push((
                        "entitled-class-without-certificate".into(),
                        format!("{ca} under {parent}: a class has no \
                                 certificate after convergence; expected \
                                 {expected:?}, has {actual:?}"),
                    ));
                } else if expected != actual {
                    issues.push((
                        "child-resources-differ-from-entitlement".into(),
                        format!("{ca} under {parent}: entitled [{entitled}], \
                                 expected classes {expected:?} but holds \
                                 {actual:?}"),
                    ));
                }
                // the parent publishes exactly one certificate per active key
                if parent != "ta" {
                    let pubd = issuer_pub(w, &parent);
                    for (kid, res) in &active_keys {
                        let found: Vec<&ChildCert> = pubd.iter()
                            .filter(|c| &c.ski == kid).collect();
                        if found.len() != 1 {
                            issues.push((
                                "published-cert-count".into(),
                                format!("{parent} publishes {} certificates \
                                         for {ca}'s key {kid}", found.len()),
                            ));
                        } else if &found[0].resources != res {
                            issues.push((
                                "published-cert-differs-from-held".into(),
                                format!("{parent} publishes [{}] for {ca} \
                                         which holds [{}]",
                                        found[0].resources, res),
                            ));
                        }
                    }
                }
            }
        }
        // no issuer publishes a certificate for a key none of its children
        // holds (any more): a revocation request that was answered
        // positively took effect. Judged only for issuers all of whose
        // registered children are CAs of this instance.
        for issuer in w.ca_handles() {
            if issuer == "ta" { continue }
            let kids = Self::children_of(w, &issuer);
            if kids.is_empty() { continue }
            if kids.iter().any(|c| {
                !w.krill.ca_manager().has_ca(&h(c)).unwrap_or(false)
                    // a child that has dropped this parent revokes "best
                    // effort" only: nothing is promised about its leftovers
                    || !kvh::hist::Gen::parents_of(w, c).contains(&issuer)
            }) { continue }
            let held: BTreeSet<String> = kids.iter()
                .flat_map(|c| all_keys(w, c)).collect();
            for c in issuer_pub(w, &issuer) {
                r.count("orphan_cert_checks", 1);
                if !held.contains(&c.ski) {
                    issues.push((
                        "published-cert-for-key-no-child-holds".into(),
                        format!("{issuer} publishes {} for key {} which none \
                                 of its children {kids:?} holds", c.uri, c.ski),
                    ));
                }
            }
        }
        issues
    }

    fn versions(w: &World) -> BTreeMap<String, u64> {
        let mut v = BTreeMap::new();
        for ca in w.ca_handles() {
            if let Ok(c) = w.krill.ca_manager().get_ca(&h(&ca)) {
                v.insert(ca, c.version());
            }
        }
        if let Ok(p) = w.krill.ca_manager().get_trust_anchor_proxy() {
            v.insert("ta-proxy".into(), p.version());
        }
        v
    }

    fn converge_and_check(
        &mut self, w: &mut World, ctx: &Ctx, r: &mut Report
    ) -> Vec<Issue> {
        let (ok, rounds, fatal) = self.catch_up_observed(w, r);
        if let Some(f) = fatal { return vec![f] }
        if !ok {
            return vec![(
                "no-quiescence".into(),
                format!("history {}: task queue did not become idle after {}",
                        ctx.hist_idx, ctx.last_op_kind),
            )]
        }
        r.distinct("rounds_needed", rounds.to_string());
        r.max("rounds_needed", rounds as u64);
        let mut issues = self.check_converged(w, r);
        if !issues.is_empty() { return issues }
        // (iv) idempotence: one more round changes nothing
        let before_v = Self::versions(w);
        let before_h = oracle::repo_hash(w);
        let (runs, ok) = w.sync_round();
        for run in &runs {
            if let Some(f) = run.fatal() {
                return vec![(format!("daemon-would-exit@{}", run.name()), f)]
            }
        }
        if !ok { return vec![("no-quiescence".into(), "extra round".into())] }
        r.eval();
        r.count("idempotence_checks", 1);
        let after_v = Self::versions(w);
        let after_h = oracle::repo_hash(w);
        if before_v != after_v {
            let diff: Vec<String> = after_v.iter().filter(|(k, v)| {
                before_v.get(*k) != Some(*v)
            }).map(|(k, v)| format!("{k}: {:?} -> {v}", before_v.get(k)))
                .collect();
            issues.push((
                "not-idempotent-commands".into(),
                format!("a further synchronisation round recorded commands: \
                         {diff:?}"),
            ));
        }
        if before_h != after_h {
            issues.push((
                "not-idempotent-repository".into(),
                "a further synchronisation round changed repository content"
                    .into(),
            ));
        }
        issues
    }

    /// catch_up, but observing every publication on the way.
    fn catch_up_observed(
        &mut self, w: &mut World, r: &mut Report
    ) -> (bool, usize, Option<Issue>) {
        let mut last = oracle::repo_hash(w);
        let mut last_files = w.publisher_files();
        let mut diag: Vec<String> = vec![];
        for round in 0..=10usize {
            if round > 0 { w.schedule_sync_all() }
            let mut issue: Option<Issue> = None;
            let ok = kvh::world::quiesce_with(w, 90, 400, &mut |w, run| {
                if let Some(f) = run.fatal() {
                    issue = Some((
                        format!("daemon-would-exit@{}",
                                run.name().split(':').next().unwrap()),
                        format!("{}: {f}", run.name())
                    ));
                    return false
                }
                if let Some(i) = self.check_issuance(w, r).into_iter().next() {
                    issue = Some(i);
                    return false
                }
                if let (Task::SyncRepo { ca_handle, .. }, Completion::Done)
                    = (&run.task, &run.completion)
                {
                    if ca_handle.as_str() != "ta" {
                        let i = self.check_publication(
                            w, ca_handle.as_str(), r
                        );
                        if let Some(i) = i.into_iter().next() {
                            issue = Some(i);
                            return false
                        }
                    }
                }
                true
            });
            if issue.is_some() { return (false, round, issue) }
            if std::env::var("KVH_DEBUG").is_ok() {
                let names: Vec<String> = w.task_log.iter().rev().take(14)
                    .map(|t| format!("{}={:?}", t.name(), t.completion))
                    .collect();
                eprintln!("round {round}: ok={ok} hash={:016x} open={} \n   last tasks: {names:?}\n   pending: {:?} running: {:?}",
                    oracle::repo_hash(w), oracle::has_open_requests(w),
                    w.pending(), w.running());
            }
            if !ok { return (false, round, None) }
            if round == 0 {
                if let Some(i) = self.check_quiescent_containment(w, r)
                    .into_iter().next()
                {
                    return (false, round, Some(i))
                }
            }
            let now = oracle::repo_hash(w);
            if round > 0 && now == last && !oracle::has_open_requests(w) {
                return (true, round, None)
            }
            let files = w.publisher_files();
            let changed: Vec<String> = files.iter().filter(|(u, b)| {
                last_files.get(*u) != Some(*b)
            }).map(|(u, _)| u.rsplit('/').take(2).collect::<Vec<_>>()
                   .into_iter().rev().collect::<Vec<_>>().join("/"))
                .chain(last_files.keys().filter(|u| !files.contains_key(*u))
                    .map(|u| format!("-{}", u.rsplit('/').next().unwrap())))
                .take(6).collect();
            let tasks: Vec<String> = w.task_log.iter().rev().take(10)
                .map(|t| format!("{}={:?}", t.name(), t.completion))
                .collect();
            diag.push(format!(
                "round {round}: changed={changed:?} open={} tasks={tasks:?}",
                oracle::has_open_requests(w)
            ));
            last_files = files;
            last = now;
        }
        if let Ok(dir) = std::env::var("KVH_DUMP") {
            for ca in w.ca_handles() {
                if let Ok(c) = w.krill.ca_manager().get_ca(&h(&ca)) {
                    let _ = std::fs::write(
                        format!("{dir}/dump_{ca}.json"),
                        serde_json::to_string_pretty(c.as_ref()).unwrap()
                    );
                }
            }
        }
        let n = diag.len();
        (false, 10, Some((
            "no-convergence".into(),
            format!("did not settle in 10 rounds; last rounds: {:?}",
                    &diag[n.saturating_sub(3)..]),
        )))
    }
}

impl Monitor for C02Monitor {
    fn after_task(
        &mut self, w: &mut World, run: &TaskRun, _ctx: &Ctx, r: &mut Report,
    ) -> Vec<Issue> {
        let mut issues = self.check_issuance(w, r);
        if let (Task::SyncRepo { ca_handle, .. }, Completion::Done)
            = (&run.task, &run.completion)
        {
            if ca_handle.as_str() != "ta" {
                issues.extend(self.check_publication(w, ca_handle.as_str(), r));
            }
        }
        issues
    }

    fn after_op(
        &mut self, w: &mut World, op: &Op, outcome: &Outcome, ctx: &Ctx,
        r: &mut Report,
    ) -> Vec<Issue> {
        if let (Op::AddCa { ca, parent, asn, v4, v6 }, Outcome::Ok)
            = (op, outcome)
        {
            if parent == "ta" {
                if let Ok(rs) = ResourceSet::from_strs(asn, v4, v6) {
                    self.ta_entitlements.insert(ca.clone(), rs);
                }
            }
        }
        if let (Op::ChildSuspend { parent, child }, Outcome::Ok) = (op, outcome) {
            self.suspended_since_pub.insert((parent.clone(), child.clone()));
        }
        let mut issues = self.check_issuance(w, r);
        if ctx.in_setup && ctx.op_idx + 1 != ctx.n_setup { return issues }
        self.since_converge += 1;
        if std::env::var("KVH_DEBUG").is_ok() {
            eprintln!("op {} {:?}: steps {:?}\n   pending {:?}", ctx.op_idx, op,
                w.step_log.iter().rev().take(4).collect::<Vec<_>>(),
                w.pending().iter().map(|p| (p.0, p.1.clone())).collect::<Vec<_>>());
        }
        if ctx.op_idx + 1 < self.hold_until { return issues }
        if self.since_converge >= self.converge_every
            || ctx.op_idx + 1 == self.hold_until
            || ctx.op_idx + 1 == ctx.total || ctx.op_idx + 1 == ctx.n_setup
        {
            self.since_converge = 0;
            issues.extend(self.converge_and_check(w, ctx, r));
            // tasks run inside the convergence rounds are observed by
            // after_task; bring the issuance monitor up to date
            issues.extend(self.check_issuance(w, r));
        }
        issues
    }
}

fn boundary_script(which: u64) -> (Vec<Op>, bool) {
    let upd = |p: &str, c: &str, asn: &str, v4: &str, v6: &str| {
        Op::ChildUpdate {
            parent: p.into(), child: c.into(), asn: asn.into(),
            v4: v4.into(), v6: v6.into(),
        }
    };
    match which % 8 {
        // suspend + unsuspend the leaf, then shrink its issuer
        0 => (vec![
            Op::ChildSuspend { parent: "mid".into(), child: "leaf".into() },
            Op::Quiesce,
            Op::ChildUnsuspend { parent: "mid".into(), child: "leaf".into() },
            Op::Quiesce,
            upd("top", "mid", "AS65000-AS65005", "10.0.0.0/16", "2001:db8::/48"),
            Op::SyncParent { ca: "mid".into() },
            Op::Quiesce,
        ], true),
        // shrink to partial, to nothing in common, regain
        1 => (vec![
            upd("top", "mid", "AS65000-AS65005", "10.0.0.0/16", ""),
            Op::SyncParent { ca: "mid".into() }, Op::Quiesce,
            upd("top", "mid", "AS65003", "10.128.0.0/16", ""),
            Op::SyncParent { ca: "mid".into() }, Op::Quiesce,
            upd("top", "mid", "AS65000-AS65005", "10.0.0.0/16, 10.1.0.0/16",
                "2001:db8::/48"),
            Op::SyncParent { ca: "mid".into() }, Op::Quiesce,
        ], true),
        // grow at both levels
        2 => (vec![
            upd("top", "mid", "AS65000-AS65008",
                "10.0.0.0/16, 10.1.0.0/16, 10.2.0.0/24", "2001:db8::/48"),
            upd("mid", "leaf", "AS65000-AS65001",
                "10.0.0.0/24, 10.1.0.0/24, 10.2.0.0/24", ""),
            Op::Quiesce,
        ], true),
        // two-parent child, shrink at both parents
        3 => (vec![
            upd("p1", "c2", "AS65004", "10.2.0.0/24", ""),
            upd("p2", "c2", "AS65015", "172.16.0.0/16", ""),
            Op::Quiesce,
            Op::ChildUpdate { parent: "p1".into(), child: "c1".into(),
                asn: "AS65000".into(), v4: "10.0.0.0/16".into(),
                v6: "".into() },
            Op::SyncParent { ca: "c1".into() }, Op::Quiesce,
        ], false),
        // the issuer loses and regains resources before its child has
        // synchronised again (children call in at their own pace, krill's
        // every ten minutes; nothing makes them call earlier): the child's
        // certificate was cut down in between and has to be regained
        5 => (vec![
            upd("top", "mid", "AS65000-AS65005", "10.0.0.0/16",
                "2001:db8::/48"),
            Op::Quiesce,
            upd("top", "mid", "AS65000-AS65005", "10.0.0.0/16, 10.1.0.0/16",
                "2001:db8::/48"),
            Op::Quiesce,
        ], true),
        // the same, but in between the issuer holds nothing of what the
        // child is entitled to: the child's certificate is revoked, and has
        // to come back after the issuer regained the resources
        6 => (vec![
            upd("top", "mid", "AS65003", "10.128.0.0/16", ""),
            Op::Quiesce,
            upd("top", "mid", "AS65000-AS65005", "10.0.0.0/16, 10.1.0.0/16",
                "2001:db8::/48"),
            Op::Quiesce,
        ], true),
        // the issuer shrinks while it is itself in the middle of a key roll
        // (new key certified but not yet activated; later: old key not yet
        // revoked): its children's certificates must be cut down all the
        // same, in the issuer's next publication
        7 => (vec![
            Op::RollInit { ca: "mid".into() },
            Op::Quiesce,
            upd("top", "mid", "AS65000-AS65005", "10.0.0.0/16",
                "2001:db8::/48"),
            Op::SyncParent { ca: "mid".into() },
            Op::Quiesce,
            Op::RollActivate { ca: "mid".into() },
            upd("top", "mid", "AS65000-AS65002", "10.0.0.0/20", ""),
            Op::SyncParent { ca: "mid".into() },
            Op::Quiesce,
        ], true),
        // mapped class name on a grandchild, then shrink
        _ => (vec![
            Op::AddCaMapped { ca: "kid".into(), parent: "mid".into(),
                asn: "AS65001".into(), v4: "10.1.0.0/24".into(),
                v6: "".into(), name_in_parent: "0".into(),
                name_for_child: "foo".into() },
            Op::Quiesce,
            upd("top", "mid", "AS65000-AS65005", "10.1.0.0/16", ""),
            Op::SyncParent { ca: "mid".into() }, Op::Quiesce,
            // the child with the mapped class name rolls its key: the
            // revocation of the old key names the class as the child knows it
            Op::RollInit { ca: "kid".into() }, Op::Quiesce,
            Op::RollActivate { ca: "kid".into() }, Op::Quiesce,
        ], true),
    }
}

fn run_history(
    r: &mut Report, args: &Args, idx: u64, seed: u64, replay: Option<Vec<Op>>,
    replay_chain: Option<bool>, replay_steps: Option<Vec<Option<String>>>,
) -> bool {
    let mut rng = Rng::new(seed);
    let boundary = if idx < 8 { Some(idx) }
        else if rng.chance(1, 3) { Some(rng.below(8)) } else { None };
    let (bscript, chain) = match boundary {
        Some(b) => boundary_script(b),
        None => (vec![], rng.chance(1, 2)),
    };
    let chain = replay_chain.unwrap_or(chain);
    let memory = rng.chance(1, 4);
    let n_random = if args.thorough() { rng.range(20, 45) }
        else { rng.range(8, 16) } as usize;
    let mut cfg = WorldCfg::new(args.work.join(format!("h{idx}")));
    if memory { cfg.memory = Some(seed) }
    let mut script = if chain { hist::chain_forest() }
        else { hist::standard_forest(true) };
    let n_setup = script.len();
    script.extend(bscript);
    let mut m = C02Monitor {
        converge_every: if idx < 8 { 2 } else { 4 },
        hold_until: if matches!(boundary, Some(5) | Some(6)) { script.len() }
            else { 0 },
        ..Default::default()
    };
    r.distinct("configs", format!("chain={chain}/mem={memory}/b={boundary:?}"));
    let res = runner::run(r, args, RunCfg {
        idx, seed, world: cfg,
        desc: json!({"chain": chain, "memory": memory,
                     "boundary": boundary, "seed": seed}),
        script, n_setup, n_random,
        profile: Profile::entitlements(), replay, replay_steps, keep_dir: false,
    }, &mut m);
    res.clean
}

fn main() {
    let args = Args::parse();
    let mut r = Report::new("C02", &args);
    if let Some(path) = &args.replay {
        let (ops, seed, cfg, steps) = runner::load_replay(path);
        let ok = run_history(
            &mut r, &args, 99, seed, Some(ops), cfg["chain"].as_bool(), steps
        );
        println!("replay: {}",
                 if ok { "no violation" } else { "violation reproduced" });
        r.write();
        return
    }
    let mut idx = 0u64;
    loop {
        let hist_idx = if idx == 0 && args.shard < 8 { args.shard }
            else { 8 + idx };
        let seed = args.shard_seed().wrapping_mul(7919).wrapping_add(hist_idx);
        run_history(&mut r, &args, hist_idx, seed, None, None, None);
        idx += 1;
        if !r.within_budget() { break }
        let _ = std::fs::write(
            args.work.join("partial.json"),
            serde_json::to_vec(&r.to_json()).unwrap()
        );
    }
    r.write();
}
