//! In-process krill world: one instance with embedded TA and repository,
//! driven without HTTP, with a faithful stand-in for the scheduler thread.

use std::collections::{BTreeMap, BTreeSet};
use std::path::{Path, PathBuf};
use std::str::FromStr;
use bytes::Bytes;
use krill::api;
use krill::api::ca::Timestamp;
use krill::commons::KrillResult;
use krill::commons::actor::Actor;
use krill::commons::eventsourcing::Aggregate;
use krill::commons::storage::{Ident, KeyValueStore, StorageSystem};
use krill::config::Config;
use krill::constants::TASK_QUEUE_NS;
use krill::server::mq::{Task, TaskResult};
use krill::server::runtime::{KrillRuntime, SlowKrillRuntime};
use krill::server::scheduler::verif_process_task;
use rpki::ca::idexchange::{CaHandle, ParentHandle};
use rpki::repository::resources::ResourceSet;
use rpki::uri;
use serde_json::{json, Value};

pub const HOST: &str = "krill.example.net";

pub fn h(s: &str) -> CaHandle {
    CaHandle::from_str(s).expect("handle")
}

pub fn rs(asn: &str, v4: &str, v6: &str) -> ResourceSet {
    ResourceSet::from_strs(asn, v4, v6).expect("resource set")
}

pub fn roa(s: &str) -> api::roa::RoaConfiguration {
    api::roa::RoaConfiguration::from_str(s).expect("roa")
}

pub fn roa_payload(s: &str) -> api::roa::RoaPayload {
    api::roa::RoaPayload::from_str(s).expect("roa payload")
}

//------------ WorldCfg ------------------------------------------------------

#[derive(Clone, Debug)]
pub struct WorldCfg {
    pub dir: PathBuf,
    pub memory: Option<u64>,
    pub aggregate: (usize, usize),
    pub rrdp_interval: u32,
    /// Extra lines appended to the TOML configuration.
    pub extra_toml: String,
    /// Whether the TA signer is embedded (fully embedded TA).
    pub ta_signer_embedded: bool,
    pub log_level: String,
    /// Host name of this instance's service, RRDP and rsync URIs.
    pub host: String,
    /// History generators may move CAs to a second publication server.
    pub allow_remote: bool,
}

impl WorldCfg {
    pub fn new(dir: impl AsRef<Path>) -> WorldCfg {
        WorldCfg {
            dir: dir.as_ref().to_path_buf(),
            memory: None,
            aggregate: (3, 2),
            rrdp_interval: 0,
            extra_toml: String::new(),
            ta_signer_embedded: true,
            log_level: std::env::var("KVH_LOG").unwrap_or("off".into()),
            host: HOST.to_string(),
            allow_remote: false,
        }
    }

    pub fn toml(&self) -> String {
        let dir = self.dir.display();
        let storage = match self.memory {
            Some(seed) => format!("memory://{seed}"),
            None => format!("{dir}/data/"),
        };
        format!(r#"
storage_uri = "{storage}"
repo_dir = "{dir}/repo/"
tls_keys_dir = "{dir}/ssl/"
pid_file = "{dir}/krill.pid"
log_type = "stderr"
log_level = "{}"
admin_token = "secret"
service_uri = "https://{host}/"
ta_support_enabled = true
ta_signer_enabled = {}
roa_aggregate_threshold = {}
roa_deaggregate_threshold = {}
rrdp_delta_interval_min_seconds = {}
{}
"#,
            self.log_level, self.ta_signer_embedded,
            self.aggregate.0, self.aggregate.1, self.rrdp_interval,
            self.extra_toml,
            host = self.host,
        )
    }

    pub fn config(&self) -> Config {
        std::fs::create_dir_all(&self.dir).expect("create world dir");
        let conf_path = self.dir.join("krill.conf");
        std::fs::write(&conf_path, self.toml()).expect("write config");
        let mut config = Config::read_config(&conf_path).expect("config");
        config.process().expect("config process");
        config
    }
}

//------------ TaskRun -------------------------------------------------------

/// How the stand-in completed a task, mirroring `scheduler::run`.
#[derive(Clone, Debug)]
pub enum Completion {
    Done,
    FollowUp,
    Reschedule,
    /// The real scheduler would have called `process::exit(1)` here.
    WouldExit(String),
    /// The task code panicked (release builds abort).
    Panicked(String),
}

#[derive(Clone, Debug)]
pub struct TaskRun {
    pub key: String,
    pub task: Task,
    pub completion: Completion,
}

impl TaskRun {
    pub fn name(&self) -> String {
        task_name(&self.task)
    }
    pub fn fatal(&self) -> Option<String> {
        match &self.completion {
            Completion::WouldExit(e) => Some(format!("would exit: {e}")),
            Completion::Panicked(e) => Some(format!("panicked: {e}")),
            _ => None,
        }
    }
}

pub fn task_name(task: &Task) -> String {
    match task {
        Task::QueueStartTasks => "queue_start_tasks".into(),
        Task::SyncRepo { ca_handle, .. } => format!("sync_repo:{ca_handle}"),
        Task::SyncParent { ca_handle, parent, .. } => {
            format!("sync_parent:{ca_handle}:{parent}")
        }
        Task::ResourceClassRemoved { ca_handle, parent, rcn, .. } => {
            format!("rc_removed:{ca_handle}:{parent}:{rcn}")
        }
        Task::UnexpectedKey { ca_handle, rcn, .. } => {
            format!("unexpected_key:{ca_handle}:{rcn}")
        }
        Task::SyncTrustAnchorProxySignerIfPossible => "sync_ta".into(),
        Task::SuspendChildrenIfNeeded { ca_handle } => {
            format!("suspend_children:{ca_handle}")
        }
        Task::RenewTestbedTa => "renew_testbed_ta".into(),
        Task::RepublishIfNeeded => "republish_if_needed".into(),
        Task::RenewObjectsIfNeeded => "renew_objects_if_needed".into(),
        Task::UpdateSnapshots => "update_snapshots".into(),
        Task::RrdpUpdateIfNeeded => "rrdp_update".into(),
        Task::SweepLoginCache => "sweep_login_cache".into(),
        Task::RefreshAnnouncementsInfo => "refresh_announcements".into(),
    }
}

//------------ World ---------------------------------------------------------

pub struct World {
    pub krill: KrillRuntime,
    pub slow: SlowKrillRuntime,
    pub actor: Actor,
    pub cfg: WorldCfg,
    pub started: Timestamp,
    pub tasks_kv: KeyValueStore,
    /// Every task the stand-in executed, in order.
    pub task_log: Vec<TaskRun>,
    /// Result of every `step()` call: the queue name of the task that ran
    /// or `None` when nothing was due. Part of every witness.
    pub step_log: Vec<Option<String>>,
    /// When set, `step()` follows this recorded sequence (directed claims).
    pub script: Option<std::collections::VecDeque<Option<String>>>,
    /// Set when a scripted replay could not follow the recording.
    pub diverged: bool,
    /// Breaks ties between tasks due at the same (second-granular) time.
    pub tie_rng: crate::util::Rng,
    /// When set, a tie between equally-earliest due tasks is decided in
    /// favour of the first task whose queue name contains this text (a
    /// scripted choice among orders the real queue can produce as well).
    pub prefer: Option<String>,
    /// Never use directed claims (fault-injection runs: the harness' own
    /// storage move must not consume the injected fault).
    pub no_directed: bool,
    /// CAs the exactness oracle leaves out (e.g. a CA whose publisher the
    /// history removed on purpose).
    pub oracle_skip: std::collections::BTreeSet<String>,
    /// A second krill instance (publication server only) reached through
    /// the in-process transport: "somebody else's repository".
    pub remote: Option<Box<World>>,
    _tokio: tokio::runtime::Runtime,
}

static LOG_INIT: std::sync::Once = std::sync::Once::new();

impl World {
    fn build(cfg: WorldCfg, tweak: Option<&dyn Fn(&mut Config)>) -> World {
        let mut config = cfg.config();
        if let Some(tweak) = tweak { tweak(&mut config) }
        if cfg.log_level != "off" {
            LOG_INIT.call_once(|| { let _ = config.init_logging(); });
        }
        let tokio = tokio::runtime::Builder::new_multi_thread()
            .worker_threads(2).enable_all().build().expect("tokio");
        let storage = StorageSystem::new(config.storage_uri.clone());
        let krill = KrillRuntime::new(
            config, storage, tokio.handle().clone()
        ).expect("krill runtime");
        let slow = SlowKrillRuntime::new(krill.clone());
        let actor = krill.system_actor().clone();
        let tasks_kv = krill.storage().open(TASK_QUEUE_NS).expect("tasks kv");
        World {
            krill, slow, actor, cfg,
            started: Timestamp::now(),
            tasks_kv, task_log: vec![], step_log: vec![], script: None,
            diverged: false, tie_rng: crate::util::Rng::new(0x7a5c),
            prefer: None,
            no_directed: false,
            oracle_skip: Default::default(),
            remote: None,
            _tokio: tokio,
        }
    }

    /// Creates a fresh world: wipes the directory, initialises the
    /// repository and a fully embedded trust anchor.
    pub fn create(cfg: WorldCfg) -> World {
        Self::create_with(cfg, None)
    }

    pub fn create_with(
        cfg: WorldCfg, tweak: Option<&dyn Fn(&mut Config)>
    ) -> World {
        let _ = std::fs::remove_dir_all(&cfg.dir);
        krill::verif::set_queue_clock_offset_ms(0);
        // transport faults armed for an earlier world of this process
        crate::remote::LOSE_REPLY_AT.store(
            -1, std::sync::atomic::Ordering::SeqCst);
        crate::remote::UNREACHABLE.store(
            false, std::sync::atomic::Ordering::SeqCst);
        let w = Self::build(cfg, tweak);
        let uris = api::admin::PublicationServerUris {
            rrdp_base_uri: uri::Https::from_string(
                format!("https://{}/rrdp/", w.cfg.host)
            ).unwrap(),
            rsync_jail: uri::Rsync::from_string(
                format!("rsync://{}/repo/", w.cfg.host)
            ).unwrap(),
        };
        w.krill.repo_manager().init(uris, &w.krill).expect("repo init");
        if w.cfg.ta_signer_embedded {
            w.krill.ca_manager().ta_init_fully_embedded(
                uri::Rsync::from_string(
                    format!("rsync://{HOST}/ta/ta.cer")
                ).unwrap(),
                vec![uri::Https::from_string(
                    format!("https://{HOST}/ta/ta.cer")
                ).unwrap()],
                None, &w.actor, &w.slow,
            ).expect("ta init");
        }
        w
    }

    /// Opens an existing world directory the way a daemon start does:
    /// running tasks are rescheduled and the start task is queued.
    pub fn open(cfg: WorldCfg) -> World {
        Self::open_with(cfg, None)
    }

    pub fn open_with(
        cfg: WorldCfg, tweak: Option<&dyn Fn(&mut Config)>
    ) -> World {
        let w = Self::build(cfg, tweak);
        w.krill.tasks().reschedule_tasks_at_startup()
            .expect("reschedule at startup");
        w.krill.tasks().schedule(
            Task::QueueStartTasks, krill::server::mq::now()
        ).expect("schedule start tasks");
        w
    }

    /// Opens an existing directory without any start-up task handling.
    pub fn open_raw(cfg: WorldCfg) -> World {
        Self::build(cfg, None)
    }

    /// Drops this world and opens the same directory again (disk only).
    pub fn restart(mut self) -> World {
        let cfg = self.cfg.clone();
        assert!(cfg.memory.is_none(), "restart needs disk storage");
        // the other party's server is not restarted with this one
        let remote = self.remote.take();
        drop(self);
        let mut w = World::open(cfg);
        if remote.is_some() {
            crate::remote::register(
                &format!("https://{}/", w.cfg.host),
                w.krill.clone(), w.actor.clone());
        }
        w.remote = remote;
        w
    }

    /// The second publication server, started at first use.
    pub fn ensure_remote(&mut self) -> &World {
        if self.remote.is_none() {
            let mut cfg = WorldCfg::new(self.cfg.dir.join("remote2"));
            cfg.host = crate::remote::HOST2.to_string();
            cfg.ta_signer_embedded = false;
            cfg.memory = self.cfg.memory.map(|s| s ^ 0x2222);
            cfg.rrdp_interval = self.cfg.rrdp_interval;
            // a world of its own must not reset the shared queue clock
            let offset = krill::verif::queue_clock_offset_ms();
            let r = World::create(cfg);
            krill::verif::set_queue_clock_offset_ms(offset);
            crate::remote::register(
                &format!("https://{}/", crate::remote::HOST2),
                r.krill.clone(), r.actor.clone());
            // CAs of the second instance may have parents in this one
            crate::remote::register(
                &format!("https://{}/", self.cfg.host),
                self.krill.clone(), self.actor.clone());
            self.remote = Some(Box::new(r));
        }
        self.remote.as_ref().unwrap()
    }

    pub fn data_dir(&self) -> PathBuf { self.cfg.dir.join("data") }
    pub fn repo_dir(&self) -> PathBuf { self.cfg.dir.join("repo") }

    //--- CA forest construction

    /// Creates a CA with a publisher in the embedded repository (no parent).
    pub fn init_ca_with_repo(&self, ca: &str) -> KrillResult<()> {
        let ca = h(ca);
        let k = &self.krill;
        k.ca_manager().init_ca(ca.clone(), k)?;
        let pub_req = k.ca_manager().get_ca(&ca)?.publisher_request();
        k.repo_manager().create_publisher(pub_req, &self.actor)?;
        let resp = k.repo_manager().repository_response(&ca.convert(), k)?;
        let contact = api::admin::RepositoryContact::try_from_response(
            resp
        ).map_err(|e| krill::commons::error::Error::custom(e.to_string()))?;
        k.ca_manager().update_repo(
            ca, contact, false, &self.actor, &self.slow
        )
    }

    /// Registers `ca` as a child of `parent` and adds the parent to `ca`.
    pub fn add_parent(
        &self, ca: &str, parent: &str, res: ResourceSet
    ) -> KrillResult<()> {
        let presp = self.add_child_only(ca, parent, res)?;
        self.add_parent_only(ca, parent, presp)
    }

    /// The parent-side half: add the child, return the parent response.
    pub fn add_child_only(
        &self, ca: &str, parent: &str, res: ResourceSet
    ) -> KrillResult<rpki::ca::idexchange::ParentResponse> {
        let k = &self.krill;
        let id_cert = k.ca_manager().get_ca(&h(ca))?
            .child_request().validate().map_err(|e| {
                krill::commons::error::Error::custom(e.to_string())
            })?;
        k.ca_manager().ca_add_child(
            &h(parent),
            api::admin::AddChildRequest {
                handle: h(ca).convert(), resources: res, id_cert
            },
            &self.actor, k
        )
    }

    /// The child-side half.
    pub fn add_parent_only(
        &self, ca: &str, parent: &str,
        response: rpki::ca::idexchange::ParentResponse,
    ) -> KrillResult<()> {
        let ph: ParentHandle = h(parent).convert();
        self.krill.ca_manager().ca_parent_add_or_update(
            h(ca), api::admin::ParentCaReq { handle: ph, response },
            &self.actor, &self.krill
        )
    }

    pub fn add_ca(
        &self, ca: &str, parent: &str, res: ResourceSet
    ) -> KrillResult<()> {
        self.init_ca_with_repo(ca)?;
        self.add_parent(ca, parent, res)
    }

    pub fn update_child_resources(
        &self, parent: &str, child: &str, res: ResourceSet
    ) -> KrillResult<()> {
        self.krill.ca_manager().ca_child_update(
            &h(parent), h(child).convert(),
            api::admin::UpdateChildRequest::resources(res),
            &self.actor, &self.krill
        )
    }

    pub fn suspend_child(
        &self, parent: &str, child: &str, suspend: bool
    ) -> KrillResult<()> {
        let req = if suspend {
            api::admin::UpdateChildRequest::suspend()
        } else {
            api::admin::UpdateChildRequest::unsuspend()
        };
        self.krill.ca_manager().ca_child_update(
            &h(parent), h(child).convert(), req, &self.actor, &self.krill
        )
    }

    pub fn remove_child(&self, parent: &str, child: &str) -> KrillResult<()> {
        self.krill.ca_manager().ca_child_remove(
            &h(parent), h(child).convert(), &self.actor, &self.krill
        )
    }

    pub fn roas_update(
        &self, ca: &str, added: Vec<api::roa::RoaConfiguration>,
        removed: Vec<api::roa::RoaPayload>,
    ) -> KrillResult<()> {
        self.krill.ca_manager().ca_routes_update(
            h(ca),
            api::roa::RoaConfigurationUpdates { added, removed },
            &self.actor, &self.krill
        )
    }

    pub fn keyroll_init(&self, ca: &str) -> KrillResult<()> {
        self.krill.ca_manager().ca_keyroll_init(
            h(ca), chrono::Duration::seconds(0), &self.actor, &self.krill
        )
    }

    pub fn keyroll_activate(&self, ca: &str) -> KrillResult<()> {
        self.krill.ca_manager().ca_keyroll_activate(
            h(ca), chrono::Duration::seconds(0), &self.actor, &self.krill
        )
    }

    /// Schedules a parent refresh for every CA (what `bulk refresh` does).
    pub fn schedule_sync_all(&self) {
        let k = &self.krill;
        if let Ok(cas) = k.ca_manager().ca_handles() {
            for ca in cas {
                let _ = k.ca_manager().cas_schedule_refresh_single(ca, k);
            }
        }
        if let Some(r) = &self.remote {
            // with another server in play a "round of synchronisations" is
            // every CA of both instances calling its parents and its
            // publication server (a failed exchange with a remote server is
            // retried by krill after minutes, beyond the quiescence horizon)
            r.schedule_sync_all();
            let _ = k.ca_manager().cas_schedule_repo_sync_all(k);
            let _ = r.krill.ca_manager().cas_schedule_repo_sync_all(&r.krill);
        }
    }

    pub fn schedule_sync(&self, ca: &str) {
        let _ = self.krill.ca_manager().cas_schedule_refresh_single(
            h(ca), &self.krill
        );
    }

    pub fn ca_handles(&self) -> Vec<String> {
        let mut v: Vec<String> = self.krill.ca_manager().ca_handles()
            .unwrap_or_default().into_iter().map(|c| c.to_string()).collect();
        v.sort();
        v
    }

    pub fn ca_info(&self, ca: &str) -> Option<Value> {
        self.krill.ca_manager().get_ca(&h(ca)).ok().map(|c| {
            serde_json::to_value(c.as_ca_info()).unwrap()
        })
    }

    //--- Task queue inspection and stand-in scheduler

    /// (timestamp ms, name, storage key) of all pending tasks.
    pub fn pending(&self) -> Vec<(u128, String, String)> {
        self.list_scope("pending")
    }

    pub fn running(&self) -> Vec<(u128, String, String)> {
        self.list_scope("running")
    }

    fn list_scope(&self, scope: &str) -> Vec<(u128, String, String)> {
        let scope = Ident::from_str(scope).unwrap();
        let mut res: Vec<_> = self.tasks_kv.keys(Some(scope), "")
            .unwrap_or_default().into_iter().filter_map(|k| {
                let (ts, name) = k.as_str().split_once('-')?;
                Some((ts.parse().ok()?, name.to_string(), k.to_string()))
            }).collect();
        res.sort();
        res
    }

    /// The queue's current (virtual) time in ms.
    pub fn queue_now_ms(&self) -> u128 {
        let real = std::time::SystemTime::now()
            .duration_since(std::time::UNIX_EPOCH).unwrap().as_millis();
        (real as i128 + krill::verif::queue_clock_offset_ms() as i128) as u128
    }

    /// Moves the queue clock forward.
    pub fn advance_ms(&self, ms: i64) {
        krill::verif::set_queue_clock_offset_ms(
            krill::verif::queue_clock_offset_ms() + ms
        );
    }

    /// Completes a processed task exactly as `scheduler::run` does.
    fn complete(
        &self, key: &Ident,
        result: Result<Result<TaskResult, String>, String>,
    ) -> Completion {
        match result {
            Err(panic) => Completion::Panicked(panic),
            Ok(Err(fatal)) => {
                Completion::WouldExit(format!("fatal task error: {fatal}"))
            }
            Ok(Ok(TaskResult::Done)) => {
                match self.krill.tasks().finish(key) {
                    Ok(()) => Completion::Done,
                    Err(e) => Completion::WouldExit(format!("finish: {e}")),
                }
            }
            Ok(Ok(TaskResult::FollowUp(task, prio))) => {
                match self.krill.tasks().schedule_and_finish_existing(
                    task, prio
                ) {
                    Ok(()) => Completion::FollowUp,
                    Err(e) => Completion::WouldExit(format!("follow-up: {e}")),
                }
            }
            Ok(Ok(TaskResult::Reschedule(prio))) => {
                match self.krill.tasks().reschedule(key, prio) {
                    Ok(()) => Completion::Reschedule,
                    Err(e) => {
                        Completion::WouldExit(format!("reschedule: {e}"))
                    }
                }
            }
        }
    }

    /// Processes an already claimed task.
    pub fn process_claimed(
        &mut self, key: Box<Ident>, value: Value
    ) -> TaskRun {
        self.process_claimed_with(key, value, |_| {})
    }

    /// Directed claim of a pending key (same storage move the queue
    /// performs) without processing it: returns the running key and value.
    pub fn claim_directed(&self, pending_key: &str) -> Option<(Box<Ident>, Value)> {
        let pending = Ident::from_str("pending").unwrap();
        let running = Ident::from_str("running").unwrap();
        let key = Ident::from_str(pending_key).ok()?;
        let (_, name) = pending_key.split_once('-')?;
        let new_key_s = format!("{}-{}", self.queue_now_ms(), name);
        let new_key = Ident::from_str(&new_key_s).ok()?;
        let value: Value = self.tasks_kv.execute(None, |kv| {
            let v: Option<Value> = kv.get(Some(pending), key)?;
            if v.is_some() {
                kv.move_value(Some(pending), key, Some(running), new_key)?;
            }
            Ok(v)
        }).ok()??;
        Some((new_key.into(), value))
    }

    /// Processes an already claimed task; `between` runs after the task's
    /// work and before the scheduler's completion call (finish / follow-up /
    /// reschedule) - the instant at which, in the daemon, a request served by
    /// another thread can commit while the task still counts as running.
    pub fn process_claimed_with(
        &mut self, key: Box<Ident>, value: Value,
        between: impl FnOnce(&mut World),
    ) -> TaskRun {
        let task: Task = match serde_json::from_value(value) {
            Ok(t) => t,
            Err(e) => {
                let run = TaskRun {
                    key: key.to_string(), task: Task::SweepLoginCache,
                    completion: Completion::WouldExit(
                        format!("unparsable task: {e}")
                    ),
                };
                self.task_log.push(run.clone());
                return run
            }
        };
        let slow = self.slow.clone();
        let started = self.started;
        let t2 = task.clone();
        let result = crate::util::catch(move || {
            verif_process_task(&slow, t2, started).map_err(|e| e.to_string())
        });
        between(self);
        let completion = self.complete(&key, result);
        let run = TaskRun { key: key.to_string(), task, completion };
        self.task_log.push(run.clone());
        run
    }

    /// Runs the next due task. With a single earliest due task this is the
    /// real `pop()`. Several tasks due with the same timestamp are claimed
    /// by the real queue in storage listing order, which is arbitrary; the
    /// stand-in then picks one of them with its seeded PRNG through a
    /// directed claim. In scripted mode the recorded sequence is followed.
    pub fn step(&mut self) -> Option<TaskRun> {
        if let Some(script) = self.script.as_mut() {
            match script.pop_front() {
                Some(None) => {
                    self.step_log.push(None);
                    return None
                }
                Some(Some(name)) => {
                    let key = self.pending().into_iter()
                        .find(|p| p.1 == name).map(|p| p.2);
                    match key {
                        Some(key) => {
                            let run = self.step_directed(&key);
                            self.step_log.push(Some(name));
                            return run
                        }
                        None => {
                            eprintln!("replay diverged: task {name} is not pending");
                            self.diverged = true;
                            self.script = None;
                        }
                    }
                }
                None => { self.script = None; }
            }
        }
        let now = self.queue_now_ms();
        let due: Vec<(u128, String, String)> = self.pending().into_iter()
            .filter(|p| p.0 <= now).collect();
        let run = match due.first().map(|p| p.0) {
            None => None,
            Some(min_ts) => {
                let ties: Vec<&(u128, String, String)> = due.iter()
                    .filter(|p| p.0 == min_ts).collect();
                if ties.len() == 1 || self.no_directed {
                    let (key, value) = self.krill.tasks().pop()?;
                    Some(self.process_claimed(key, value))
                } else {
                    let preferred = self.prefer.as_ref().and_then(|pat| {
                        ties.iter().position(|t| t.1.contains(pat.as_str()))
                    });
                    let pick = match preferred {
                        Some(i) => i,
                        None => self.tie_rng.below(ties.len() as u64) as usize,
                    };
                    let key = ties[pick].2.clone();
                    self.step_directed(&key)
                }
            }
        };
        self.step_log.push(run.as_ref().map(|r| {
            r.key.split_once('-').map(|x| x.1.to_string())
                .unwrap_or_else(|| r.key.clone())
        }));
        run
    }

    /// Directed claim: moves the chosen pending key to running (the same
    /// storage move the queue performs) and runs it.
    pub fn step_directed(&mut self, pending_key: &str) -> Option<TaskRun> {
        let pending = Ident::from_str("pending").unwrap();
        let running = Ident::from_str("running").unwrap();
        let key = Ident::from_str(pending_key).ok()?;
        let (_, name) = pending_key.split_once('-')?;
        let new_key_s = format!("{}-{}", self.queue_now_ms(), name);
        let new_key = Ident::from_str(&new_key_s).ok()?;
        let value: Value = self.tasks_kv.execute(None, |kv| {
            let v: Option<Value> = kv.get(Some(pending), key)?;
            if v.is_some() {
                kv.move_value(Some(pending), key, Some(running), new_key)?;
            }
            Ok(v)
        }).ok()??;
        Some(self.process_claimed(new_key.into(), value))
    }

    /// Directed claim without running the task: the state a daemon leaves
    /// behind when it is killed while that task is being executed.
    pub fn claim_only(&self, pending_key: &str) -> bool {
        let pending = Ident::from_str("pending").unwrap();
        let running = Ident::from_str("running").unwrap();
        let Ok(key) = Ident::from_str(pending_key) else { return false };
        let Some((_, name)) = pending_key.split_once('-') else { return false };
        let new_key_s = format!("{}-{}", self.queue_now_ms(), name);
        let Ok(new_key) = Ident::from_str(&new_key_s) else { return false };
        self.tasks_kv.execute(None, |kv| {
            let v: Option<Value> = kv.get(Some(pending), key)?;
            if v.is_some() {
                kv.move_value(Some(pending), key, Some(running), new_key)?;
            }
            Ok(v.is_some())
        }).unwrap_or(false)
    }

    /// Runs due tasks until none is due or `limit` tasks ran.
    pub fn pump(&mut self, limit: usize) -> Vec<TaskRun> {
        let mut runs = vec![];
        while runs.len() < limit {
            match self.step() {
                Some(r) => runs.push(r),
                None => break,
            }
        }
        runs
    }

    /// Pumps until no task is due within `horizon_s` virtual seconds,
    /// moving the queue clock over idle gaps. Returns the runs and whether
    /// quiescence was reached within `limit` tasks.
    pub fn quiesce_within(
        &mut self, horizon_s: u64, limit: usize
    ) -> (Vec<TaskRun>, bool) {
        let mut runs = vec![];
        let ok = quiesce_with(self, horizon_s, limit, &mut |_w, run| {
            runs.push(run.clone());
            true
        });
        (runs, ok)
    }

    /// Default quiescence: 90 virtual seconds, 400 tasks.
    pub fn quiesce(&mut self) -> (Vec<TaskRun>, bool) {
        self.quiesce_within(90, 400)
    }

    /// One round of "every CA calls its parents", then quiesce.
    pub fn sync_round(&mut self) -> (Vec<TaskRun>, bool) {
        self.schedule_sync_all();
        self.quiesce()
    }

    //--- Repository views

    /// All files of all publishers as the server(s) hold them (incl.
    /// staged): the embedded server's and, when a history moved a CA to the
    /// second publication server, that one's.
    pub fn publisher_files(&self) -> BTreeMap<String, Bytes> {
        let mut files = self.publisher_files_local();
        if let Some(r) = &self.remote {
            files.extend(r.publisher_files_local());
        }
        files
    }

    /// The embedded publication server's files only.
    pub fn publisher_files_local(&self) -> BTreeMap<String, Bytes> {
        let mut files = BTreeMap::new();
        let k = &self.krill;
        for p in k.repo_manager().publishers().unwrap_or_default() {
            if let Ok(d) = k.repo_manager().get_publisher_details(p) {
                for f in d.current_files {
                    files.insert(f.uri.to_string(), f.base64.to_bytes());
                }
            }
        }
        files
    }

    pub fn publisher_file_names(&self, publisher: &str) -> BTreeSet<String> {
        self.krill.repo_manager().get_publisher_details(
            h(publisher).convert()
        ).map(|d| {
            d.current_files.iter().map(|f| f.uri.to_string()).collect()
        }).unwrap_or_default()
    }

    /// The TA certificate as the proxy holds it.
    pub fn ta_cert(&self) -> Option<rpki::repository::cert::Cert> {
        self.krill.ca_manager().get_trust_anchor_proxy().ok()?
            .get_ta_details().ok()?.cert.to_cert().ok()
    }

    /// A digest of the API-observable configuration state (for "refused
    /// request changes nothing" checks).
    pub fn state_digest(&self) -> Value {
        let k = &self.krill;
        let mut cas = BTreeMap::new();
        for ca in self.ca_handles() {
            if let Ok(c) = k.ca_manager().get_ca(&h(&ca)) {
                let mut info = serde_json::to_value(c.as_ca_info()).unwrap();
                strip_volatile(&mut info);
                cas.insert(ca.clone(), json!({
                    "version": c.version(),
                    "info": info,
                    "roas": serde_json::to_value(c.configured_roas()).unwrap(),
                    "aspas": serde_json::to_value(
                        c.aspas_definitions_show()).unwrap(),
                    "bgpsec": serde_json::to_value(
                        c.bgpsec_definitions_show()).unwrap(),
                }));
            }
        }
        let files: BTreeMap<String, String> = self.publisher_files()
            .iter().map(|(u, b)| {
                (u.clone(), format!("{:016x}", crate::util::fnv(b)))
            }).collect();
        let mut publishers: Vec<String> = k.repo_manager().publishers()
            .unwrap_or_default().iter().map(|p| p.to_string()).collect();
        publishers.sort();
        json!({ "cas": cas, "files": files, "publishers": publishers })
    }
}

/// Removes fields that legitimately differ between otherwise equal states.
pub fn strip_volatile(_v: &mut Value) { }

/// Pumps the world until no task is due within `horizon_s` virtual seconds,
/// calling `f` after every executed task (return false to stop early).
/// Returns whether quiescence was reached.
pub fn quiesce_with(
    w: &mut World, horizon_s: u64, limit: usize,
    f: &mut dyn FnMut(&mut World, &TaskRun) -> bool,
) -> bool {
    let mut n = 0usize;
    let mut budget_ms: i128 = horizon_s as i128 * 1000;
    let mut same_streak = 0usize;
    let mut last_name = String::new();
    loop {
        if n >= limit { return false }
        match w.step() {
            Some(r) => {
                n += 1;
                let name = r.name();
                if name == last_name { same_streak += 1 }
                else { same_streak = 0; last_name = name }
                if same_streak >= 3 {
                    // A task that keeps coming back at once waits for real
                    // time (RRDP interval): give it some.
                    std::thread::sleep(std::time::Duration::from_millis(120));
                }
                if !f(w, &r) { return false }
            }
            None => {
                if !w.running().is_empty() {
                    // nothing runs concurrently in the stand-in
                    return false
                }
                // the other party's daemon does its background work too
                if let Some(run) = w.remote.as_mut().and_then(|r| r.step()) {
                    n += 1;
                    if run.fatal().is_some() && !f(w, &run) { return false }
                    continue
                }
                let now = w.queue_now_ms();
                let next = w.pending().into_iter().map(|p| p.0)
                    .chain(w.remote.iter().flat_map(|r| {
                        r.pending().into_iter().map(|p| p.0)
                    })).min();
                match next {
                    Some(ts) if (ts as i128 - now as i128) <= budget_ms => {
                        let gap = (ts as i128 - now as i128).max(0) + 1;
                        budget_ms -= gap;
                        w.advance_ms(gap as i64);
                        // virtual time passed: a repeating task is not
                        // busy-waiting for real time
                        same_streak = 0;
                        last_name.clear();
                    }
                    _ => return true,
                }
            }
        }
    }
}
