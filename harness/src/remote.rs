//! In-process transport for krill's protocol client, and a second krill
//! instance that plays "somebody else's server".
//!
//! krill sends RFC 8181 / RFC 6492 messages to servers other than itself
//! through `httpclient::post_binary_with_full_ua`. With the `verif-hooks`
//! feature that function first asks `krill::verif::protocol_post`; the hook
//! installed here routes requests for registered base URIs to the manager of
//! the krill instance that serves that URI - the very call the HTTP
//! dispatcher of that instance would make (`RepositoryManager::rfc8181`,
//! `CaManager::rfc6492`) - and lets everything else go to the network.
//! Everything above the socket (message building, signing, validation,
//! error handling, status recording, retries by the task queue) is krill's
//! own code on both sides; only the socket is replaced. Each request is
//! served on a plain OS thread of its own, so that the serving instance is
//! free to use its own runtime.

use std::str::FromStr;
use std::sync::{Arc, Mutex};
use bytes::Bytes;
use krill::commons::actor::Actor;
use krill::server::runtime::KrillRuntime;

pub const HOST2: &str = "repo2.example.net";

struct Route {
    base: String,
    krill: KrillRuntime,
    actor: Actor,
}

static ROUTES: Mutex<Vec<Route>> = Mutex::new(Vec::new());
/// Requests served so far (observability for the evidence).
pub static SERVED: std::sync::atomic::AtomicU64 =
    std::sync::atomic::AtomicU64::new(0);
/// Ordinal (in `SERVED` order, starting at 0) of the request whose reply is
/// lost on the way back: the serving instance processes the request, the
/// sender sees a failed HTTP exchange. One shot; negative: none.
pub static LOSE_REPLY_AT: std::sync::atomic::AtomicI64 =
    std::sync::atomic::AtomicI64::new(-1);
/// What was served, in order: (ordinal, protocol path).
pub static SERVED_LOG: Mutex<Vec<(u64, String)>> = Mutex::new(Vec::new());
/// When set, every routed request fails like an unreachable server.
pub static UNREACHABLE: std::sync::atomic::AtomicBool =
    std::sync::atomic::AtomicBool::new(false);

/// Registers (or replaces) the instance serving `base` (e.g.
/// `https://repo2.example.net/`).
pub fn register(base: &str, krill: KrillRuntime, actor: Actor) {
    let mut routes = ROUTES.lock().unwrap_or_else(|e| e.into_inner());
    routes.retain(|r| r.base != base);
    routes.push(Route { base: base.to_string(), krill, actor });
    install();
}

pub fn unregister(base: &str) {
    let mut routes = ROUTES.lock().unwrap_or_else(|e| e.into_inner());
    routes.retain(|r| r.base != base);
}

fn serve(uri: &str, body: &[u8]) -> Option<Result<Vec<u8>, String>> {
    let (krill, actor, path) = {
        let routes = ROUTES.lock().unwrap_or_else(|e| e.into_inner());
        let r = routes.iter().find(|r| uri.starts_with(&r.base))?;
        (r.krill.clone(), r.actor.clone(), uri[r.base.len()..].to_string())
    };
    if UNREACHABLE.load(std::sync::atomic::Ordering::SeqCst) {
        return Some(Err("connection refused (harness: server down)".into()))
    }
    let body = Bytes::copy_from_slice(body);
    let log_path = path.clone();
    let handle = std::thread::spawn(move || -> Result<Vec<u8>, String> {
        if let Some(publisher) = path.strip_prefix("rfc8181/") {
            let publisher = rpki::ca::idexchange::PublisherHandle::from_str(
                publisher.trim_end_matches('/')
            ).map_err(|e| format!("bad publisher in path: {e}"))?;
            krill.repo_manager().rfc8181(publisher, body, &krill)
                .map(|b| b.to_vec()).map_err(|e| e.to_string())
        } else if let Some(ca) = path.strip_prefix("rfc6492/") {
            let ca = rpki::ca::idexchange::CaHandle::from_str(
                ca.trim_end_matches('/')
            ).map_err(|e| format!("bad CA in path: {e}"))?;
            krill.ca_manager().rfc6492(
                &ca, body, Some("kvh-transport".into()), &actor, &krill
            ).map(|b| b.to_vec()).map_err(|e| e.to_string())
        } else {
            Err(format!("404 no such protocol path: {path}"))
        }
    });
    let ordinal = SERVED.fetch_add(1, std::sync::atomic::Ordering::SeqCst);
    if let Ok(mut l) = SERVED_LOG.lock() {
        if l.len() < 10_000 { l.push((ordinal, log_path)); }
    }
    let res = match handle.join() {
        Ok(res) => res,
        Err(_) => Err("500 the serving instance panicked".into()),
    };
    if LOSE_REPLY_AT.load(std::sync::atomic::Ordering::SeqCst) == ordinal as i64 {
        LOSE_REPLY_AT.store(-1, std::sync::atomic::Ordering::SeqCst);
        return Some(Err("connection reset (harness: reply lost)".into()))
    }
    Some(res)
}

fn install() {
    static ONCE: std::sync::Once = std::sync::Once::new();
    ONCE.call_once(|| {
        krill::verif::set_protocol_post_hook(Some(Arc::new(
            |uri: &str, body: &[u8], _content_type: &str| serve(uri, body)
        )));
    });
}
