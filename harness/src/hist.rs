//! Histories of API operations: a serialisable operation alphabet, a
//! state-aware seeded generator and the executor that applies an operation
//! to a [`World`].

use std::str::FromStr;
use krill::api;
use rpki::repository::resources::ResourceSet;
use rpki::resources::Asn;
use serde::{Deserialize, Serialize};
use crate::util::{catch, Rng};
use crate::world::{h, roa, roa_payload, rs, World};

//------------ Pools ---------------------------------------------------------

pub const V4_POOL: &[&str] = &[
    "10.0.0.0/16", "10.1.0.0/16", "10.2.0.0/24", "10.0.5.0/24",
    "10.128.0.0/16", "172.16.0.0/16", "10.1.128.0/17",
];
pub const V6_POOL: &[&str] = &[
    "2001:db8::/48", "2001:db8:1::/48", "2001:db8:8000::/48",
];
pub const ASN_POOL: &[u32] = &[
    65000, 65001, 65002, 65003, 65004, 65005, 65006, 65007, 65010, 65015,
];

//------------ Op ------------------------------------------------------------

#[derive(Clone, Debug, Deserialize, Serialize, PartialEq)]
#[serde(tag = "op", rename_all = "snake_case")]
pub enum Op {
    AddCa { ca: String, parent: String, asn: String, v4: String, v6: String },
    AddParent { ca: String, parent: String, asn: String, v4: String, v6: String },
    /// Like AddCa, but the parent maps its class `name_in_parent` to
    /// `name_for_child` before the child receives its first certificate.
    AddCaMapped {
        ca: String, parent: String, asn: String, v4: String, v6: String,
        name_in_parent: String, name_for_child: String,
    },
    /// Parent-side half of adding a parent: one API request.
    AddChildOnly { ca: String, parent: String, asn: String, v4: String, v6: String },
    /// Child-side half (the child is already registered at the parent).
    AddParentOnly { ca: String, parent: String },
    RemoveParent { ca: String, parent: String },
    DeleteCa { ca: String },
    ChildUpdate { parent: String, child: String, asn: String, v4: String, v6: String },
    ChildSuspend { parent: String, child: String },
    ChildUnsuspend { parent: String, child: String },
    ChildRemove { parent: String, child: String },
    RoaDelta { ca: String, add: Vec<String>, remove: Vec<String> },
    AspaUpdate { ca: String, add: Vec<String>, remove: Vec<u32> },
    AspaProviders { ca: String, customer: u32, added: Vec<u32>, removed: Vec<u32> },
    BgpsecAdd { ca: String, asn: u32, key: usize },
    BgpsecRemove { ca: String, asn: u32, key: usize },
    RollInit { ca: String },
    RollActivate { ca: String },
    RepublishAll { force: bool },
    RenewAll,
    ForceRenewRoas,
    SyncParent { ca: String },
    SyncAll,
    SyncRepoAll,
    Pump { n: usize },
    Quiesce,
    UpdateSnapshots,
    /// Removes a publisher (and its objects) at the publication server.
    RemovePublisher { publisher: String },
    /// Registers a publisher that is not a CA of this instance (a remote
    /// CA's publisher, played by the harness) with a fresh identity.
    RawPublisher { publisher: String },
    /// That publisher publishes `name` (or updates it when present).
    RawPublish { publisher: String, name: String, fill: u8 },
    /// That publisher withdraws `name`.
    RawWithdraw { publisher: String, name: String },
    /// From now on a tie between equally-earliest due tasks goes to the task
    /// whose queue name contains `pat` (empty: back to the seeded choice).
    Prefer { pat: String },
    /// The CA moves to the second publication server (another krill
    /// instance reached through the in-process transport): krill starts a
    /// key roll whose new key publishes there; activating the roll finishes
    /// the migration and empties the old publication point.
    RepoMigrate { ca: String },
    /// The CA moves (back) to the embedded publication server.
    RepoMigrateBack { ca: String },
    /// The second publication server becomes unreachable / reachable again.
    RemoteDown { down: bool },
    /// A CA `remote` is created in the SECOND krill instance (publishing at
    /// that instance's server) as a child of this instance's CA `via`, and
    /// a CA `ca` of this instance becomes a child of `remote`: `ca` has a
    /// remote parent, `via` a remote child; both talk RFC 6492 through the
    /// in-process transport.
    RemoteChain { via: String, remote: String, ca: String,
                  asn: String, v4: String, v6: String },
    /// The remote parent changes the entitlement of its child.
    RemoteChildUpdate { parent: String, child: String,
                        asn: String, v4: String, v6: String },
    /// The reply to the `nth` next request served through the transport
    /// (0 = the next one) is lost: the server acts, the sender sees a
    /// failed exchange.
    LoseReply { nth: u64 },
}

impl Op {
    pub fn kind(&self) -> &'static str {
        match self {
            Op::AddCa { .. } => "add_ca",
            Op::AddParent { .. } => "add_parent",
            Op::AddCaMapped { .. } => "add_ca_mapped",
            Op::AddChildOnly { .. } => "add_child_only",
            Op::AddParentOnly { .. } => "add_parent_only",
            Op::RemoveParent { .. } => "remove_parent",
            Op::DeleteCa { .. } => "delete_ca",
            Op::ChildUpdate { .. } => "child_update",
            Op::ChildSuspend { .. } => "child_suspend",
            Op::ChildUnsuspend { .. } => "child_unsuspend",
            Op::ChildRemove { .. } => "child_remove",
            Op::RoaDelta { .. } => "roa_delta",
            Op::AspaUpdate { .. } => "aspa_update",
            Op::AspaProviders { .. } => "aspa_providers",
            Op::BgpsecAdd { .. } => "bgpsec_add",
            Op::BgpsecRemove { .. } => "bgpsec_remove",
            Op::RollInit { .. } => "roll_init",
            Op::RollActivate { .. } => "roll_activate",
            Op::RepublishAll { .. } => "republish_all",
            Op::RenewAll => "renew_all",
            Op::ForceRenewRoas => "force_renew_roas",
            Op::SyncParent { .. } => "sync_parent",
            Op::SyncAll => "sync_all",
            Op::SyncRepoAll => "sync_repo_all",
            Op::Pump { .. } => "pump",
            Op::Quiesce => "quiesce",
            Op::UpdateSnapshots => "update_snapshots",
            Op::RemovePublisher { .. } => "remove_publisher",
            Op::Prefer { .. } => "prefer",
            Op::RawPublisher { .. } => "raw_publisher",
            Op::RawPublish { .. } => "raw_publish",
            Op::RawWithdraw { .. } => "raw_withdraw",
            Op::RepoMigrate { .. } => "repo_migrate",
            Op::RepoMigrateBack { .. } => "repo_migrate_back",
            Op::RemoteDown { .. } => "remote_down",
            Op::RemoteChain { .. } => "remote_chain",
            Op::RemoteChildUpdate { .. } => "remote_child_update",
            Op::LoseReply { .. } => "lose_reply",
        }
    }
}

#[derive(Clone, Debug, Serialize, Deserialize, PartialEq)]
pub enum Outcome {
    Ok,
    Refused(String),
    Panicked(String),
}

impl Outcome {
    pub fn is_ok(&self) -> bool { matches!(self, Outcome::Ok) }
}

//------------ BGPsec keys ---------------------------------------------------

/// Makes (and caches per process) P-256 router key CSRs.
pub fn bgpsec_csr(idx: usize) -> rpki::ca::csr::BgpsecCsr {
    use std::sync::Mutex;
    static CACHE: Mutex<Vec<Option<Vec<u8>>>> = Mutex::new(Vec::new());
    let mut cache = CACHE.lock().unwrap_or_else(|e| e.into_inner());
    if cache.len() <= idx { cache.resize(idx + 1, None) }
    if cache[idx].is_none() {
        cache[idx] = Some(make_csr_der());
    }
    rpki::ca::csr::BgpsecCsr::decode(
        cache[idx].as_ref().unwrap().as_slice()
    ).expect("decode generated CSR")
}

pub fn make_csr_der() -> Vec<u8> {
    use openssl::ec::{EcGroup, EcKey};
    use openssl::hash::MessageDigest;
    use openssl::nid::Nid;
    use openssl::pkey::PKey;
    use openssl::x509::{X509NameBuilder, X509ReqBuilder};
    let group = EcGroup::from_curve_name(Nid::X9_62_PRIME256V1).unwrap();
    let key = PKey::from_ec_key(EcKey::generate(&group).unwrap()).unwrap();
    let mut req = X509ReqBuilder::new().unwrap();
    req.set_version(0).unwrap();
    let mut name = X509NameBuilder::new().unwrap();
    name.append_entry_by_text("CN", "ROUTER-0000FDE8").unwrap();
    req.set_subject_name(&name.build()).unwrap();
    req.set_pubkey(&key).unwrap();
    let eku = openssl::x509::extension::ExtendedKeyUsage::new()
        .other("1.3.6.1.5.5.7.3.30").build().unwrap();
    let mut stack = openssl::stack::Stack::new().unwrap();
    stack.push(eku).unwrap();
    req.add_extensions(&stack).unwrap();
    req.sign(&key, MessageDigest::sha256()).unwrap();
    req.build().to_der().unwrap()
}

//------------ apply ---------------------------------------------------------

fn res(asn: &str, v4: &str, v6: &str) -> Result<ResourceSet, String> {
    ResourceSet::from_strs(asn, v4, v6).map_err(|e| e.to_string())
}

/// Applies one operation. Panics inside krill are caught and reported.
pub fn apply(w: &mut World, op: &Op) -> Outcome {
    let r = catch(|| apply_inner(w, op));
    match r {
        Ok(Ok(())) => Outcome::Ok,
        Ok(Err(e)) => Outcome::Refused(e),
        Err(p) => Outcome::Panicked(p),
    }
}

fn apply_inner(w: &mut World, op: &Op) -> Result<(), String> {
    let k = w.krill.clone();
    let actor = w.actor.clone();
    let e = |e: krill::commons::error::Error| e.to_string();
    match op {
        Op::AddCa { ca, parent, asn, v4, v6 } => {
            let r = res(asn, v4, v6)?;
            w.init_ca_with_repo(ca).map_err(e)?;
            w.add_parent(ca, parent, r).map_err(e)
        }
        Op::AddParent { ca, parent, asn, v4, v6 } => {
            w.add_parent(ca, parent, res(asn, v4, v6)?).map_err(e)
        }
        Op::AddCaMapped {
            ca, parent, asn, v4, v6, name_in_parent, name_for_child
        } => {
            let r = res(asn, v4, v6)?;
            w.init_ca_with_repo(ca).map_err(e)?;
            let presp = w.add_child_only(ca, parent, r).map_err(e)?;
            let mapping = api::admin::ResourceClassNameMapping {
                name_in_parent: name_in_parent.as_str().into(),
                name_for_child: name_for_child.as_str().into(),
            };
            k.ca_manager().ca_child_update(
                &h(parent), h(ca).convert(),
                api::admin::UpdateChildRequest {
                    id_cert: None, resources: None, suspend: None,
                    resource_class_name_mapping: Some(mapping),
                },
                &actor, &k
            ).map_err(e)?;
            w.add_parent_only(ca, parent, presp).map_err(e)
        }
        Op::AddChildOnly { ca, parent, asn, v4, v6 } => {
            w.add_child_only(ca, parent, res(asn, v4, v6)?).map(|_| ())
                .map_err(e)
        }
        Op::AddParentOnly { ca, parent } => {
            let resp = k.ca_manager().ca_parent_response(
                &h(parent), h(ca).convert(), k.service_uri()
            ).map_err(e)?;
            w.add_parent_only(ca, parent, resp).map_err(e)
        }
        Op::RemoveParent { ca, parent } => {
            k.ca_manager().ca_parent_remove(
                h(ca), h(parent).convert(), &actor, &w.slow
            ).map_err(e)
        }
        Op::DeleteCa { ca } => {
            k.ca_manager().delete_ca(&h(ca), &actor, &w.slow).map_err(e)?;
            // what the HTTP handler does in addition: nothing. The
            // publisher stays until removed explicitly.
            Ok(())
        }
        Op::ChildUpdate { parent, child, asn, v4, v6 } => {
            w.update_child_resources(parent, child, res(asn, v4, v6)?)
                .map_err(e)
        }
        Op::ChildSuspend { parent, child } => {
            w.suspend_child(parent, child, true).map_err(e)
        }
        Op::ChildUnsuspend { parent, child } => {
            w.suspend_child(parent, child, false).map_err(e)
        }
        Op::ChildRemove { parent, child } => {
            w.remove_child(parent, child).map_err(e)
        }
        Op::RoaDelta { ca, add, remove } => {
            let mut added = vec![];
            for a in add {
                added.push(api::roa::RoaConfiguration::from_str(a)
                    .map_err(|e| format!("parse: {e}"))?);
            }
            let mut removed = vec![];
            for r in remove {
                removed.push(api::roa::RoaPayload::from_str(r)
                    .map_err(|e| format!("parse: {e}"))?);
            }
            w.roas_update(ca, added, removed).map_err(e)
        }
        Op::AspaUpdate { ca, add, remove } => {
            let mut defs = vec![];
            for a in add {
                defs.push(api::aspa::AspaDefinition::from_str(a)
                    .map_err(|e| format!("parse: {e}"))?);
            }
            let updates = api::aspa::AspaDefinitionUpdates {
                add_or_replace: defs,
                remove: remove.iter().map(|a| Asn::from_u32(*a)).collect(),
            };
            k.ca_manager().ca_aspas_definitions_update(
                h(ca), updates, &actor, &k
            ).map_err(e)
        }
        Op::AspaProviders { ca, customer, added, removed } => {
            let update = api::aspa::AspaProvidersUpdate {
                added: added.iter().map(|a| Asn::from_u32(*a)).collect(),
                removed: removed.iter().map(|a| Asn::from_u32(*a)).collect(),
            };
            k.ca_manager().ca_aspas_update_aspa_providers(
                h(ca), Asn::from_u32(*customer), update, &actor, &k
            ).map_err(e)
        }
        Op::BgpsecAdd { ca, asn, key } => {
            let def = api::bgpsec::BgpSecDefinition {
                asn: Asn::from_u32(*asn), csr: bgpsec_csr(*key),
            };
            k.ca_manager().ca_bgpsec_definitions_update(
                h(ca),
                api::bgpsec::BgpSecDefinitionUpdates {
                    add: vec![def], remove: vec![]
                },
                &actor, &k
            ).map_err(e)
        }
        Op::BgpsecRemove { ca, asn, key } => {
            let def = api::bgpsec::BgpSecDefinition {
                asn: Asn::from_u32(*asn), csr: bgpsec_csr(*key),
            };
            k.ca_manager().ca_bgpsec_definitions_update(
                h(ca),
                api::bgpsec::BgpSecDefinitionUpdates {
                    add: vec![],
                    remove: vec![api::bgpsec::BgpSecAsnKey::from(&def)],
                },
                &actor, &k
            ).map_err(e)
        }
        Op::RollInit { ca } => w.keyroll_init(ca).map_err(e),
        Op::RollActivate { ca } => w.keyroll_activate(ca).map_err(e),
        Op::RepublishAll { force } => {
            // what KrillManager::republish_all does
            let cas = k.ca_manager().republish_all(*force, &k).map_err(e)?;
            for ca in cas {
                k.ca_manager().cas_schedule_repo_sync(ca, &k).map_err(e)?;
            }
            Ok(())
        }
        Op::RenewAll => {
            k.ca_manager().renew_objects_all(&actor, &k).map_err(e)
        }
        Op::ForceRenewRoas => {
            k.ca_manager().force_renew_roas_all(&actor, &k).map_err(e)
        }
        Op::SyncParent { ca } => { w.schedule_sync(ca); Ok(()) }
        Op::SyncAll => { w.schedule_sync_all(); Ok(()) }
        Op::SyncRepoAll => {
            k.ca_manager().cas_schedule_repo_sync_all(&k).map_err(e)
        }
        Op::Pump { n } => { w.pump(*n); Ok(()) }
        Op::Quiesce => { w.quiesce(); Ok(()) }
        Op::UpdateSnapshots => {
            w.krill.tasks().schedule(
                krill::server::mq::Task::UpdateSnapshots,
                krill::server::mq::now()
            ).map_err(e)
        }
        Op::RawPublisher { publisher } => {
            use rpki::ca::idexchange::{PublisherHandle, PublisherRequest};
            use rpki::ca::publication::Base64;
            let handle = PublisherHandle::from_str(publisher)
                .map_err(|e| e.to_string())?;
            let idc = k.signer().create_self_signed_id_cert().map_err(
                |e| e.to_string())?;
            let req = PublisherRequest::new(
                Base64::from_content(&idc.to_bytes()), handle, None);
            k.repo_manager().create_publisher(req, &actor).map(|_| ())
                .map_err(e)
        }
        Op::RawPublish { publisher, name, fill } => {
            use rpki::ca::idexchange::PublisherHandle;
            use rpki::ca::publication::{
                Base64, Publish, PublishDelta, Update,
            };
            let handle = PublisherHandle::from_str(publisher)
                .map_err(|e| e.to_string())?;
            let det = k.repo_manager().get_publisher_details(handle.clone())
                .map_err(e)?;
            let uri = det.base_uri.join(name.as_bytes())
                .map_err(|e| e.to_string())?;
            let content = Base64::from_content(&vec![*fill; 24 + *fill as usize]);
            let mut delta = PublishDelta::empty();
            match det.current_files.iter().find(|f| f.uri == uri) {
                Some(f) => delta.add_update(Update::with_hash_tag(
                    uri, content, f.base64.to_hash())),
                None => delta.add_publish(Publish::with_hash_tag(uri, content)),
            }
            k.repo_manager().publish(&handle, delta, &k).map_err(e)
        }
        Op::RawWithdraw { publisher, name } => {
            use rpki::ca::idexchange::PublisherHandle;
            use rpki::ca::publication::{PublishDelta, Withdraw};
            let handle = PublisherHandle::from_str(publisher)
                .map_err(|e| e.to_string())?;
            let det = k.repo_manager().get_publisher_details(handle.clone())
                .map_err(e)?;
            let uri = det.base_uri.join(name.as_bytes())
                .map_err(|e| e.to_string())?;
            let Some(f) = det.current_files.iter().find(|f| f.uri == uri)
                else { return Err("nothing to withdraw".into()) };
            let mut delta = PublishDelta::empty();
            delta.add_withdraw(Withdraw::with_hash_tag(uri, f.base64.to_hash()));
            k.repo_manager().publish(&handle, delta, &k).map_err(e)
        }
        Op::Prefer { pat } => {
            w.prefer = if pat.is_empty() { None } else { Some(pat.clone()) };
            Ok(())
        }
        Op::RepoMigrate { ca } => {
            let req = k.ca_manager().get_ca(&h(ca)).map_err(e)?
                .publisher_request();
            let handle = req.publisher_handle().clone();
            let r = w.ensure_remote();
            // registered once; a second move to the same server re-uses it
            let _ = r.krill.repo_manager().create_publisher(req, &r.actor);
            let resp = r.krill.repo_manager().repository_response(
                &handle, &r.krill).map_err(e)?;
            let contact = api::admin::RepositoryContact::try_from_response(
                resp).map_err(|e| e.to_string())?;
            k.ca_manager().update_repo(h(ca), contact, true, &actor, &w.slow)
                .map_err(e)
        }
        Op::RepoMigrateBack { ca } => {
            let resp = k.repo_manager().repository_response(
                &h(ca).convert(), &k).map_err(e)?;
            let contact = api::admin::RepositoryContact::try_from_response(
                resp).map_err(|e| e.to_string())?;
            k.ca_manager().update_repo(h(ca), contact, true, &actor, &w.slow)
                .map_err(e)
        }
        Op::RemoteChain { via, remote, ca, asn, v4, v6 } => {
            w.ensure_remote();
            let res = res(asn, v4, v6)?;
            let r = w.remote.as_ref().unwrap();
            r.init_ca_with_repo(remote).map_err(e)?;
            let id_cert = r.krill.ca_manager().get_ca(&h(remote)).map_err(e)?
                .child_request().validate().map_err(|e| e.to_string())?;
            let presp = k.ca_manager().ca_add_child(
                &h(via),
                api::admin::AddChildRequest {
                    handle: h(remote).convert(), resources: res.clone(),
                    id_cert,
                }, &actor, &k).map_err(e)?;
            r.add_parent_only(remote, via, presp).map_err(e)?;
            // the remote CA gets its certificate first (a parent cannot
            // entitle a child to what it does not hold yet)
            let _ = w.quiesce();
            let r = w.remote.as_ref().unwrap();
            w.init_ca_with_repo(ca).map_err(e)?;
            let id_cert = k.ca_manager().get_ca(&h(ca)).map_err(e)?
                .child_request().validate().map_err(|e| e.to_string())?;
            let presp = r.krill.ca_manager().ca_add_child(
                &h(remote),
                api::admin::AddChildRequest {
                    handle: h(ca).convert(), resources: res, id_cert,
                }, &r.actor, &r.krill).map_err(e)?;
            w.add_parent_only(ca, remote, presp).map_err(e)
        }
        Op::RemoteChildUpdate { parent, child, asn, v4, v6 } => {
            let Some(r) = w.remote.as_ref() else {
                return Err("no second instance".into())
            };
            r.update_child_resources(parent, child, res(asn, v4, v6)?).map_err(e)
        }
        Op::LoseReply { nth } => {
            let at = crate::remote::SERVED.load(
                std::sync::atomic::Ordering::SeqCst) + *nth;
            crate::remote::LOSE_REPLY_AT.store(
                at as i64, std::sync::atomic::Ordering::SeqCst);
            Ok(())
        }
        Op::RemoteDown { down } => {
            crate::remote::UNREACHABLE.store(
                *down, std::sync::atomic::Ordering::SeqCst);
            Ok(())
        }
        Op::RemovePublisher { publisher } => {
            w.krill.repo_manager().remove_publisher(
                h(publisher).convert(), &w.actor, &w.krill
            ).map_err(e)
        }
    }
}

//------------ Gen -----------------------------------------------------------

/// Relative weights of operation kinds.
#[derive(Clone, Debug)]
pub struct Profile {
    pub roa: u32,
    pub aspa: u32,
    pub bgpsec: u32,
    pub child_update: u32,
    pub suspend: u32,
    pub child_remove: u32,
    pub add_ca: u32,
    pub add_parent: u32,
    pub remove_parent: u32,
    pub delete_ca: u32,
    pub roll: u32,
    pub republish: u32,
    pub renew: u32,
    pub sync: u32,
    pub pump: u32,
}

impl Profile {
    pub fn general() -> Profile {
        Profile {
            roa: 30, aspa: 10, bgpsec: 6, child_update: 14, suspend: 6,
            child_remove: 2, add_ca: 3, add_parent: 2, remove_parent: 1,
            delete_ca: 1, roll: 8, republish: 3, renew: 2, sync: 8, pump: 6,
        }
    }
    pub fn entitlements() -> Profile {
        Profile {
            roa: 8, aspa: 2, bgpsec: 1, child_update: 40, suspend: 12,
            child_remove: 2, add_ca: 3, add_parent: 4, remove_parent: 1,
            delete_ca: 0, roll: 5, republish: 1, renew: 1, sync: 10, pump: 8,
        }
    }
    pub fn revocations() -> Profile {
        Profile {
            roa: 25, aspa: 10, bgpsec: 8, child_update: 12, suspend: 8,
            child_remove: 5, add_ca: 4, add_parent: 3, remove_parent: 3,
            delete_ca: 3, roll: 12, republish: 2, renew: 4, sync: 6, pump: 3,
        }
    }
}

pub struct Gen {
    pub rng: Rng,
    pub profile: Profile,
    next_ca: usize,
}

fn subset<'a>(rng: &mut Rng, pool: &[&'a str], p_num: u64) -> Vec<&'a str> {
    pool.iter().filter(|_| rng.chance(p_num, 10)).cloned().collect()
}

impl Gen {
    pub fn new(seed: u64, profile: Profile) -> Gen {
        Gen { rng: Rng::new(seed), profile, next_ca: 0 }
    }

    fn cas(&self, w: &World) -> Vec<String> {
        w.ca_handles().into_iter().filter(|c| c != "ta").collect()
    }

    /// Resources currently held by a CA (all for the TA).
    pub fn held(w: &World, ca: &str) -> ResourceSet {
        if ca == "ta" { return ResourceSet::all() }
        w.krill.ca_manager().get_ca(&h(ca)).map(|c| {
            c.as_ca_info().resources
        }).unwrap_or_else(|_| ResourceSet::empty())
    }

    /// A random entitlement, mostly within what `parent` holds.
    pub fn entitlement(
        &mut self, w: &World, parent: &str
    ) -> (String, String, String) {
        let held = Self::held(w, parent);
        let strict = !self.rng.chance(1, 12);
        let mut v4: Vec<&str> = vec![];
        let mut v6: Vec<&str> = vec![];
        let density = self.rng.range(2, 7);
        for b in subset(&mut self.rng, V4_POOL, density) {
            let set = rs("", b, "");
            if !strict || held.contains(&set) { v4.push(b) }
        }
        for b in subset(&mut self.rng, V6_POOL, density) {
            let set = rs("", "", b);
            if !strict || held.contains(&set) { v6.push(b) }
        }
        let mut asns: Vec<String> = vec![];
        for a in ASN_POOL {
            if self.rng.chance(density, 10) {
                let set = rs(&format!("AS{a}"), "", "");
                if !strict || held.contains(&set) {
                    asns.push(format!("AS{a}"))
                }
            }
        }
        // occasionally empty (to be refused), otherwise make sure of one
        if v4.is_empty() && v6.is_empty() && asns.is_empty()
            && !self.rng.chance(1, 10)
        {
            for b in V4_POOL {
                if held.contains(&rs("", b, "")) { v4.push(b); break }
            }
        }
        (asns.join(", "), v4.join(", "), v6.join(", "))
    }

    /// A ROA string mostly inside `ca`'s resources.
    pub fn roa_str(&mut self, w: &World, ca: &str) -> String {
        let held = Self::held(w, ca);
        let v6 = self.rng.chance(1, 5);
        let pool = if v6 { V6_POOL } else { V4_POOL };
        let mut candidates: Vec<&str> = pool.iter().filter(|b| {
            let set = if v6 { rs("", "", b) } else { rs("", b, "") };
            held.contains(&set)
        }).cloned().collect();
        if candidates.is_empty() || self.rng.chance(1, 12) {
            candidates = pool.to_vec();
        }
        let block = *self.rng.pick(&candidates);
        let (addr, len) = block.split_once('/').unwrap();
        let len: u8 = len.parse().unwrap();
        let max_bits = if v6 { 128 } else { 32 };
        // sub-prefix: same address, longer length (address stays aligned)
        let plen = (len + self.rng.below(3) as u8 * 4).min(
            if v6 { 64 } else { 24 }
        );
        let pfx = format!("{addr}/{plen}");
        let asn = if self.rng.chance(1, 15) { 0 }
            else { *self.rng.pick(ASN_POOL) };
        match self.rng.below(4) {
            0 => format!("{pfx} => {asn}"),
            1 => format!("{pfx}-{plen} => {asn}"),
            2 => format!("{pfx}-{} => {asn}",
                         (plen + self.rng.range(1, 4) as u8).min(max_bits)),
            _ => format!("{pfx}-{} => {asn}",
                         (plen + 1).min(max_bits)),
        }
    }

    fn configured_roas(w: &World, ca: &str) -> Vec<String> {
        w.krill.ca_manager().get_ca(&h(ca)).map(|c| {
            c.configured_roas().iter().map(|r| {
                r.roa_configuration.payload.to_string()
            }).collect()
        }).unwrap_or_default()
    }

    fn children_of(w: &World, ca: &str) -> Vec<String> {
        if ca == "ta" {
            // children of the TA: every CA that has parent ta
            return w.ca_handles().into_iter().filter(|c| {
                c != "ta" && Self::parents_of(w, c).contains(&"ta".into())
            }).collect()
        }
        w.krill.ca_manager().get_ca(&h(ca)).map(|c| {
            c.as_ca_info().children.iter().map(|c| c.to_string()).collect()
        }).unwrap_or_default()
    }

    pub fn parents_of(w: &World, ca: &str) -> Vec<String> {
        w.krill.ca_manager().get_ca(&h(ca)).map(|c| {
            c.as_ca_info().parents.iter().map(|p| p.handle.to_string())
                .collect()
        }).unwrap_or_default()
    }

    fn parent_child_pairs(&self, w: &World) -> Vec<(String, String)> {
        let mut res = vec![];
        for ca in self.cas(w) {
            for child in Self::children_of(w, &ca) {
                res.push((ca.clone(), child));
            }
        }
        res
    }

    fn fresh_name(&mut self, w: &World) -> String {
        loop {
            self.next_ca += 1;
            let name = format!("n{}", self.next_ca);
            if !w.ca_handles().contains(&name) { return name }
        }
    }

    /// Produces the next operation from the current world state.
    pub fn next_op(&mut self, w: &World) -> Op {
        let p = self.profile.clone();
        let weights = [
            p.roa, p.aspa, p.bgpsec, p.child_update, p.suspend,
            p.child_remove, p.add_ca, p.add_parent, p.remove_parent,
            p.delete_ca, p.roll, p.republish, p.renew, p.sync, p.pump,
        ];
        let cas = self.cas(w);
        for _ in 0..20 {
            let kind = self.rng.weighted(&weights);
            let ca = if cas.is_empty() { String::new() }
                else { self.rng.pick(&cas).clone() };
            match kind {
                0 if !cas.is_empty() => {
                    let existing = Self::configured_roas(w, &ca);
                    let mut add = vec![];
                    let mut remove = vec![];
                    let n = self.rng.range(1, 4);
                    for _ in 0..n {
                        if !existing.is_empty() && self.rng.chance(4, 10) {
                            let r = self.rng.pick(&existing).clone();
                            if !remove.contains(&r) { remove.push(r) }
                        } else if self.rng.chance(1, 20) {
                            // removal of something absent -> refused
                            remove.push(self.roa_str(w, &ca)
                                .split(" #").next().unwrap().to_string());
                        } else {
                            let r = self.roa_str(w, &ca);
                            if !add.contains(&r) { add.push(r) }
                        }
                    }
                    return Op::RoaDelta { ca, add, remove }
                }
                1 if !cas.is_empty() => {
                    let customer = *self.rng.pick(ASN_POOL);
                    match self.rng.below(4) {
                        0 => return Op::AspaUpdate {
                            ca, add: vec![], remove: vec![customer]
                        },
                        1 => {
                            let a = *self.rng.pick(ASN_POOL);
                            let b = *self.rng.pick(ASN_POOL);
                            return Op::AspaProviders {
                                ca, customer, added: vec![a],
                                removed: if a != b { vec![b] } else { vec![] },
                            }
                        }
                        _ => {
                            let mut provs: Vec<u32> = ASN_POOL.iter()
                                .filter(|a| {
                                    **a != customer && self.rng.chance(3, 10)
                                }).cloned().collect();
                            if provs.is_empty() { provs.push(64999) }
                            let provs: Vec<String> = provs.iter()
                                .map(|p| p.to_string()).collect();
                            return Op::AspaUpdate {
                                ca,
                                add: vec![format!(
                                    "{customer} => {}", provs.join(", ")
                                )],
                                remove: vec![],
                            }
                        }
                    }
                }
                2 if !cas.is_empty() => {
                    let asn = *self.rng.pick(ASN_POOL);
                    let key = self.rng.below(3) as usize;
                    if self.rng.chance(3, 10) {
                        return Op::BgpsecRemove { ca, asn, key }
                    }
                    return Op::BgpsecAdd { ca, asn, key }
                }
                3 => {
                    let mut pairs = self.parent_child_pairs(w);
                    for c in Self::children_of(w, "ta") {
                        pairs.push(("ta".into(), c));
                    }
                    if pairs.is_empty() { continue }
                    let (parent, child) = self.rng.pick(&pairs).clone();
                    if parent == "ta" {
                        // TA children are updated through the proxy; not
                        // exposed as child update. Skip.
                        continue
                    }
                    let (asn, v4, v6) = self.entitlement(w, &parent);
                    return Op::ChildUpdate { parent, child, asn, v4, v6 }
                }
                4 => {
                    let pairs = self.parent_child_pairs(w);
                    if pairs.is_empty() { continue }
                    let (parent, child) = self.rng.pick(&pairs).clone();
                    let suspended = w.krill.ca_manager().get_ca(&h(&parent))
                        .map(|c| c.as_ca_info().suspended_children.iter()
                             .any(|s| s.as_str() == child))
                        .unwrap_or(false);
                    if suspended || self.rng.chance(1, 10) {
                        return Op::ChildUnsuspend { parent, child }
                    }
                    return Op::ChildSuspend { parent, child }
                }
                5 => {
                    let pairs = self.parent_child_pairs(w);
                    if pairs.is_empty() { continue }
                    let (parent, child) = self.rng.pick(&pairs).clone();
                    return Op::ChildRemove { parent, child }
                }
                6 => {
                    if cas.len() >= 7 { continue }
                    let mut parents = cas.clone();
                    parents.push("ta".into());
                    let parent = self.rng.pick(&parents).clone();
                    let (asn, v4, v6) = self.entitlement(w, &parent);
                    let name = self.fresh_name(w);
                    if parent != "ta" && self.rng.chance(1, 3) {
                        return Op::AddCaMapped {
                            ca: name, parent, asn, v4, v6,
                            name_in_parent: "0".into(),
                            name_for_child: format!("m{}", self.next_ca),
                        }
                    }
                    return Op::AddCa { ca: name, parent, asn, v4, v6 }
                }
                7 if cas.len() >= 2 => {
                    let parent = self.rng.pick(&cas).clone();
                    if parent == ca { continue }
                    if Self::parents_of(w, &ca).contains(&parent) { continue }
                    // avoid cycles: parent must not descend from ca
                    if Self::descends_from(w, &parent, &ca) { continue }
                    let (asn, v4, v6) = self.entitlement(w, &parent);
                    return Op::AddParent { ca, parent, asn, v4, v6 }
                }
                8 if !cas.is_empty() => {
                    let parents = Self::parents_of(w, &ca);
                    if parents.len() < 2 && !self.rng.chance(1, 4) {
                        continue
                    }
                    if parents.is_empty() { continue }
                    let parent = self.rng.pick(&parents).clone();
                    return Op::RemoveParent { ca, parent }
                }
                9 if cas.len() >= 3 => return Op::DeleteCa { ca },
                10 if !cas.is_empty() => {
                    if w.cfg.allow_remote && self.rng.chance(1, 4) {
                        if self.rng.chance(2, 3) {
                            return Op::RepoMigrate { ca }
                        }
                        return Op::RepoMigrateBack { ca }
                    }
                    if self.rng.chance(1, 2) {
                        return Op::RollInit { ca }
                    }
                    return Op::RollActivate { ca }
                }
                11 => return Op::RepublishAll {
                    force: self.rng.chance(1, 2)
                },
                12 => {
                    if self.rng.chance(1, 3) { return Op::ForceRenewRoas }
                    return Op::RenewAll
                }
                13 => {
                    if cas.is_empty() || self.rng.chance(1, 2) {
                        return Op::SyncAll
                    }
                    return Op::SyncParent { ca }
                }
                14 => {
                    if self.rng.chance(1, 2) { return Op::Quiesce }
                    return Op::Pump { n: self.rng.range(1, 4) as usize }
                }
                _ => continue,
            }
        }
        Op::Quiesce
    }

    fn descends_from(w: &World, ca: &str, ancestor: &str) -> bool {
        let mut stack = vec![ca.to_string()];
        let mut seen = std::collections::BTreeSet::new();
        while let Some(c) = stack.pop() {
            if c == ancestor { return true }
            if !seen.insert(c.clone()) { continue }
            for p in Self::parents_of(w, &c) {
                if p != "ta" { stack.push(p) }
            }
        }
        false
    }
}

//------------ Standard forests ----------------------------------------------

/// The operations that build the standard hierarchy
/// TA -> {p1, p2} -> {c1 (p1), c2 (p1 and p2), c3 (p2)} -> g1 (c1).
pub fn standard_forest(depth4: bool) -> Vec<Op> {
    let mut ops = vec![
        Op::AddCa {
            ca: "p1".into(), parent: "ta".into(),
            asn: "AS65000-AS65010".into(), v4: "10.0.0.0/8".into(),
            v6: "2001:db8::/32".into(),
        },
        Op::Quiesce,
        Op::AddCa {
            ca: "p2".into(), parent: "ta".into(),
            asn: "AS65005-AS65020".into(),
            v4: "10.0.0.0/9, 172.16.0.0/12".into(),
            v6: "2001:db8:8000::/33".into(),
        },
        Op::Quiesce,
        Op::AddCa {
            ca: "c1".into(), parent: "p1".into(),
            asn: "AS65000-AS65003".into(),
            v4: "10.0.0.0/16, 10.1.0.0/16".into(),
            v6: "2001:db8::/48".into(),
        },
        Op::AddCa {
            ca: "c2".into(), parent: "p1".into(),
            asn: "AS65004-AS65006".into(),
            v4: "10.2.0.0/24, 10.128.0.0/16".into(),
            v6: "2001:db8:1::/48".into(),
        },
        Op::Quiesce,
        Op::AddParent {
            ca: "c2".into(), parent: "p2".into(),
            asn: "AS65010, AS65015".into(),
            v4: "172.16.0.0/16, 10.2.0.0/24".into(),
            v6: "2001:db8:8000::/48".into(),
        },
        Op::AddCa {
            ca: "c3".into(), parent: "p2".into(),
            asn: "AS65007".into(), v4: "10.0.5.0/24".into(),
            v6: "".into(),
        },
        Op::Quiesce,
    ];
    if depth4 {
        ops.push(Op::AddCa {
            ca: "g1".into(), parent: "c1".into(),
            asn: "AS65000".into(), v4: "10.0.0.0/16, 10.1.128.0/17".into(),
            v6: "".into(),
        });
        ops.push(Op::Quiesce);
    }
    ops.push(Op::SyncAll);
    ops.push(Op::Quiesce);
    ops
}

/// A small chain TA -> top -> mid -> leaf.
pub fn chain_forest() -> Vec<Op> {
    vec![
        Op::AddCa {
            ca: "top".into(), parent: "ta".into(),
            asn: "AS65000-AS65010".into(), v4: "10.0.0.0/8".into(),
            v6: "2001:db8::/32".into(),
        },
        Op::Quiesce,
        Op::AddCa {
            ca: "mid".into(), parent: "top".into(),
            asn: "AS65000-AS65005".into(),
            v4: "10.0.0.0/16, 10.1.0.0/16".into(),
            v6: "2001:db8::/48".into(),
        },
        Op::Quiesce,
        Op::AddCa {
            ca: "leaf".into(), parent: "mid".into(),
            asn: "AS65000".into(), v4: "10.0.0.0/24, 10.1.0.0/24".into(),
            v6: "".into(),
        },
        Op::Quiesce,
        Op::SyncAll, Op::Quiesce,
    ]
}

pub fn _unused(_: &World) { let _ = (roa, roa_payload); }
