//! Relying-party oracle: an independent top-down validation of a set of
//! published files (uri -> bytes) starting from the trust anchor
//! certificate. Uses rpki-rs' decoding/validation (signatures checked with
//! `ring`), never krill's own notion of what it published.

use std::collections::{BTreeMap, BTreeSet};
use std::sync::Arc;
use bytes::Bytes;
use rpki::repository::aspa::Aspa;
use rpki::repository::cert::{Cert, ResourceCert};
use rpki::repository::crl::Crl;
use rpki::repository::error::{ValidationError, VerificationError};
use rpki::repository::manifest::Manifest;
use rpki::repository::resources::ResourceSet;
use rpki::repository::roa::Roa;
use rpki::repository::tal::TalInfo;
use rpki::repository::x509::Time;
use serde_json::{json, Value};

pub type Vrp = (u32, String, u8);

/// One validated CA certificate and what its publication point holds.
#[derive(Clone, Debug)]
pub struct CaPoint {
    pub key_id: String,
    pub cert_uri: String,
    pub issuer_key: String,
    pub resources: ResourceSet,
    pub repo_dir: String,
    pub mft_uri: String,
    pub mft_number: String,
    pub crl_number: String,
    pub this_update: i64,
    pub next_update: i64,
    pub crl_next_update: i64,
    pub crl_revoked_count: usize,
    pub crl: Crl,
    /// uri -> hex hash as listed on the manifest
    pub listed: BTreeMap<String, String>,
    pub depth: usize,
    /// payloads validated directly under this key
    pub vrps: BTreeSet<Vrp>,
    pub aspas: BTreeSet<(u32, Vec<u32>)>,
    pub router_keys: BTreeSet<(u32, String)>,
    /// child CA certificates accepted: (uri, subject key id, resources)
    pub child_certs: Vec<(String, String, ResourceSet)>,
}

/// A published object (other than manifest/CRL) as seen by the walk.
#[derive(Clone, Debug)]
pub struct ObjSeen {
    pub issuer_key: String,
    pub serial: String,
    pub serial_raw: rpki::repository::x509::Serial,
    pub not_after: i64,
    pub uri: String,
    pub hash: String,
    pub kind: String,
}

#[derive(Clone, Debug, Default)]
pub struct RpView {
    pub issues: Vec<String>,
    pub cas: Vec<CaPoint>,
    pub objects: Vec<ObjSeen>,
    pub reached: BTreeSet<String>,
    pub dirs: BTreeSet<String>,
    pub listed_all: BTreeSet<String>,
    /// files lying in no reached publication-point directory
    pub orphans: BTreeSet<String>,
}

impl RpView {
    pub fn vrps(&self) -> BTreeSet<Vrp> {
        self.cas.iter().flat_map(|c| c.vrps.iter().cloned()).collect()
    }
    pub fn aspas(&self) -> BTreeSet<(u32, Vec<u32>)> {
        self.cas.iter().flat_map(|c| c.aspas.iter().cloned()).collect()
    }
    pub fn router_keys(&self) -> BTreeSet<(u32, String)> {
        self.cas.iter().flat_map(|c| c.router_keys.iter().cloned()).collect()
    }
    pub fn ca_by_key(&self, key_id: &str) -> Option<&CaPoint> {
        self.cas.iter().find(|c| c.key_id == key_id)
    }
    pub fn summary(&self) -> Value {
        json!({
            "cas": self.cas.len(), "objects": self.objects.len(),
            "vrps": self.vrps().len(), "aspas": self.aspas().len(),
            "router_keys": self.router_keys().len(),
            "issues": self.issues, "orphans": self.orphans.len(),
        })
    }
    /// Hash of the sorted (uri, hash) list of everything reached.
    pub fn state_hash(&self, files: &BTreeMap<String, Bytes>) -> u64 {
        let mut s = String::new();
        for (u, b) in files {
            s.push_str(u);
            s.push_str(&format!("{:016x};", crate::util::fnv(b)));
        }
        crate::util::fnv(s.as_bytes())
    }
}

fn hex_hash(b: &[u8]) -> String {
    hex::encode(rpki::rrdp::Hash::from_data(b).as_slice())
}

/// Walks the tree at the current time.
pub fn walk(ta: &Cert, files: &BTreeMap<String, Bytes>) -> RpView {
    walk_at(ta, files, Time::now())
}

pub fn walk_at(
    ta: &Cert, files: &BTreeMap<String, Bytes>, now: Time
) -> RpView {
    let mut res = RpView::default();
    let tal = Arc::new(TalInfo::from_name("ta".into()));
    let ta_rc = match ta.clone().validate_ta_at(tal, true, now) {
        Ok(rc) => rc,
        Err(e) => {
            res.issues.push(format!("TA certificate invalid: {e}"));
            return res
        }
    };
    let mut seen_keys = BTreeSet::new();
    walk_ca(&ta_rc, "TA", "TA", files, now, &mut res, 0, &mut seen_keys);

    for u in files.keys() {
        let dir = &u[..u.rfind('/').map(|i| i + 1).unwrap_or(0)];
        if res.dirs.contains(dir) {
            if !res.listed_all.contains(u) {
                res.issues.push(format!("present but unlisted: {u}"));
            }
        } else {
            res.orphans.insert(u.clone());
        }
    }
    res
}

#[allow(clippy::too_many_arguments)]
fn walk_ca(
    ca: &ResourceCert, ca_uri: &str, issuer_key: &str,
    files: &BTreeMap<String, Bytes>, now: Time, res: &mut RpView,
    depth: usize, seen_keys: &mut BTreeSet<String>,
) {
    if depth > 10 {
        res.issues.push(format!("{ca_uri}: depth > 10"));
        return
    }
    let key_id = ca.subject_key_identifier().to_string();
    if !seen_keys.insert(key_id.clone()) {
        res.issues.push(format!("{ca_uri}: key {key_id} certified twice"));
        return
    }
    let resources = match ResourceSet::try_from(ca.as_ref() as &Cert) {
        Ok(r) => r,
        Err(_) => {
            // TA may use inherit? never for krill.
            ResourceSet::new(
                ca.as_resources().clone(),
                ca.v4_resources().clone().into(),
                ca.v6_resources().clone().into(),
            )
        }
    };
    let Some(mft_uri) = ca.rpki_manifest() else {
        res.issues.push(format!("{ca_uri}: no rpkiManifest"));
        return
    };
    let Some(repo_uri) = ca.ca_repository() else {
        res.issues.push(format!("{ca_uri}: no caRepository"));
        return
    };
    let repo_dir = repo_uri.to_string();
    res.dirs.insert(repo_dir.clone());
    let mft_uri_s = mft_uri.to_string();
    let Some(mft_bytes) = files.get(&mft_uri_s) else {
        res.issues.push(format!(
            "{ca_uri}: manifest {mft_uri} missing for valid CA certificate"
        ));
        return
    };
    res.reached.insert(mft_uri_s.clone());
    res.listed_all.insert(mft_uri_s.clone());
    let mft = match Manifest::decode(mft_bytes.clone(), true) {
        Ok(m) => m,
        Err(e) => {
            res.issues.push(format!("{mft_uri}: decode: {e}"));
            return
        }
    };
    let (mft_ee, content) = match mft.validate_at(ca, true, now) {
        Ok(x) => x,
        Err(e) => {
            res.issues.push(format!("{mft_uri}: invalid: {e}"));
            return
        }
    };
    if content.this_update() > now || content.next_update() < now {
        res.issues.push(format!(
            "{mft_uri}: not current (this {} next {})",
            content.this_update().to_rfc3339(),
            content.next_update().to_rfc3339()
        ));
    }

    let mut listed_bytes: BTreeMap<String, Bytes> = BTreeMap::new();
    let mut listed: BTreeMap<String, String> = BTreeMap::new();
    for (furi, hash) in content.iter_uris(repo_uri) {
        let uri = furi.to_string();
        listed.insert(uri.clone(), hex::encode(hash.as_slice()));
        res.listed_all.insert(uri.clone());
        match files.get(&uri) {
            None => res.issues.push(format!(
                "{mft_uri}: listed but missing: {uri}"
            )),
            Some(b) => {
                if hash.verify(b).is_err() {
                    res.issues.push(format!(
                        "{mft_uri}: hash mismatch: {uri}"
                    ));
                } else {
                    listed_bytes.insert(uri, b.clone());
                }
            }
        }
    }

    let crl_uri = match mft_ee.crl_uri() {
        Some(u) => u.to_string(),
        None => {
            res.issues.push(format!("{mft_uri}: EE without CRL uri"));
            return
        }
    };
    let Some(crl_bytes) = listed_bytes.get(&crl_uri) else {
        res.issues.push(format!(
            "{mft_uri}: CRL {crl_uri} not listed/present"
        ));
        return
    };
    let crl = match Crl::decode(crl_bytes.clone()) {
        Ok(c) => c,
        Err(e) => {
            res.issues.push(format!("{crl_uri}: decode: {e}"));
            return
        }
    };
    if let Err(e) = crl.verify_signature(ca.subject_public_key_info()) {
        res.issues.push(format!("{crl_uri}: bad signature: {e}"));
        return
    }
    if crl.next_update() < now || crl.this_update() > now {
        res.issues.push(format!("{crl_uri}: not current"));
    }
    if crl.contains(mft_ee.serial_number()) {
        res.issues.push(format!("{mft_uri}: manifest EE revoked"));
    }
    res.reached.insert(crl_uri.clone());

    let mut point = CaPoint {
        key_id: key_id.clone(),
        cert_uri: ca_uri.to_string(),
        issuer_key: issuer_key.to_string(),
        resources,
        repo_dir,
        mft_uri: mft_uri_s.clone(),
        mft_number: content.manifest_number().to_string(),
        crl_number: crl.crl_number().to_string(),
        this_update: content.this_update().timestamp(),
        next_update: content.next_update().timestamp(),
        crl_next_update: crl.next_update().timestamp(),
        crl_revoked_count: crl.revoked_certs().iter().count(),
        crl: crl.clone(),
        listed,
        depth,
        vrps: BTreeSet::new(),
        aspas: BTreeSet::new(),
        router_keys: BTreeSet::new(),
        child_certs: vec![],
    };

    let mut children: Vec<(ResourceCert, String)> = vec![];

    for (u, b) in &listed_bytes {
        if *u == crl_uri { continue }
        res.reached.insert(u.clone());
        let crl_ref = &crl;
        let check_crl = |ee: &Cert| -> Result<(), ValidationError> {
            if crl_ref.contains(ee.serial_number()) {
                Err(VerificationError::new("EE certificate revoked").into())
            } else { Ok(()) }
        };
        if u.ends_with(".cer") {
            let cert = match Cert::decode(b.clone()) {
                Ok(c) => c,
                Err(e) => {
                    res.issues.push(format!("{u}: decode: {e}"));
                    continue
                }
            };
            res.objects.push(ObjSeen {
                issuer_key: key_id.clone(),
                serial: cert.serial_number().to_string(),
                serial_raw: cert.serial_number(),
                not_after: cert.validity().not_after().timestamp(),
                uri: u.clone(), hash: hex_hash(b),
                kind: if cert.is_ca() { "cer-ca" } else { "cer-router" }
                    .to_string(),
            });
            if crl.contains(cert.serial_number()) {
                res.issues.push(format!("{u}: revoked but published"));
                continue
            }
            if cert.is_ca() {
                match cert.clone().validate_ca_at(ca, true, now) {
                    Ok(rc) => {
                        let child_res = ResourceSet::try_from(&cert)
                            .unwrap_or_else(|_| ResourceSet::empty());
                        point.child_certs.push((
                            u.clone(),
                            cert.subject_key_identifier().to_string(),
                            child_res,
                        ));
                        children.push((rc, u.clone()));
                    }
                    Err(e) => res.issues.push(format!(
                        "{u}: CA certificate invalid: {e}"
                    )),
                }
            } else {
                match cert.validate_router_at(ca, true, now) {
                    Ok(()) => {
                        let ski = cert.subject_key_identifier().to_string();
                        if let Some(blocks) = cert.as_resources().to_blocks().ok() {
                            for block in blocks.iter() {
                                let (min, max) = (
                                    block.min().into_u32(),
                                    block.max().into_u32()
                                );
                                for asn in min..=max.min(min + 64) {
                                    point.router_keys.insert(
                                        (asn, ski.clone())
                                    );
                                }
                            }
                        }
                    }
                    Err(e) => res.issues.push(format!(
                        "{u}: router certificate invalid: {e}"
                    )),
                }
            }
        } else if u.ends_with(".roa") {
            let roa = match Roa::decode(b.clone(), true) {
                Ok(r) => r,
                Err(e) => {
                    res.issues.push(format!("{u}: decode: {e}"));
                    continue
                }
            };
            res.objects.push(ObjSeen {
                issuer_key: key_id.clone(),
                serial: roa.cert().serial_number().to_string(),
                serial_raw: roa.cert().serial_number(),
                not_after: roa.cert().validity().not_after().timestamp(),
                uri: u.clone(), hash: hex_hash(b), kind: "roa".into(),
            });
            match roa.process(ca, true, check_crl) {
                Ok((_ee, attest)) => {
                    let asn: u32 = attest.as_id().into_u32();
                    for a in attest.iter() {
                        point.vrps.insert((
                            asn,
                            format!("{}/{}", a.address(), a.address_length()),
                            a.max_length(),
                        ));
                    }
                }
                Err(e) => res.issues.push(format!("{u}: ROA invalid: {e}")),
            }
        } else if u.ends_with(".asa") {
            let aspa = match Aspa::decode(b.clone(), true) {
                Ok(r) => r,
                Err(e) => {
                    res.issues.push(format!("{u}: decode: {e}"));
                    continue
                }
            };
            res.objects.push(ObjSeen {
                issuer_key: key_id.clone(),
                serial: aspa.cert().serial_number().to_string(),
                serial_raw: aspa.cert().serial_number(),
                not_after: aspa.cert().validity().not_after().timestamp(),
                uri: u.clone(), hash: hex_hash(b), kind: "asa".into(),
            });
            match aspa.process(ca, true, check_crl) {
                Ok((_ee, att)) => {
                    let mut provs: Vec<u32> = att.provider_as_set().iter()
                        .map(|p| p.into_u32()).collect();
                    provs.sort();
                    point.aspas.insert((att.customer_as().into_u32(), provs));
                }
                Err(e) => res.issues.push(format!("{u}: ASPA invalid: {e}")),
            }
        } else if u.ends_with(".mft") {
            res.issues.push(format!("{u}: extra manifest listed"));
        } else {
            res.issues.push(format!("{u}: unknown object type"));
        }
    }

    res.cas.push(point);

    for (rc, u) in children {
        walk_ca(&rc, &u, &key_id, files, now, res, depth + 1, seen_keys);
    }
}
