//! Reading the RRDP files and the rsync tree a krill instance wrote to disk,
//! the way a client would (notification -> snapshot / deltas, hashes).

use std::collections::BTreeMap;
use std::path::{Path, PathBuf};
use rpki::rrdp::{Delta, DeltaElement, NotificationFile, Snapshot};

pub const RRDP_BASE_URI: &str = "https://krill.example.net/rrdp/";
pub const RSYNC_BASE_URI: &str = "rsync://krill.example.net/repo/";

#[derive(Clone, Debug)]
pub struct DeltaRef {
    pub serial: u64,
    pub uri: String,
    pub path: PathBuf,
    pub hash_ok: Option<bool>, // None: file missing
}

#[derive(Clone, Debug)]
pub struct RrdpState {
    pub session: String,
    pub serial: u64,
    pub snapshot_uri: String,
    pub snapshot_present: bool,
    pub snapshot_hash_ok: bool,
    pub snapshot_session: String,
    pub snapshot_serial: u64,
    /// uri -> bytes of the snapshot content
    pub snapshot: BTreeMap<String, Vec<u8>>,
    pub deltas: Vec<DeltaRef>,
}

pub fn uri_to_path(repo_dir: &Path, uri: &str) -> Option<PathBuf> {
    let rel = uri.strip_prefix(RRDP_BASE_URI)?;
    Some(repo_dir.join("rrdp").join(rel))
}

/// Reads notification.xml and what it refers to. Err = notification
/// missing or unparsable (which is itself an observation).
pub fn read_rrdp(repo_dir: &Path) -> Result<RrdpState, String> {
    let npath = repo_dir.join("rrdp").join("notification.xml");
    let nbytes = std::fs::read(&npath)
        .map_err(|e| format!("notification.xml unreadable: {e}"))?;
    let n = NotificationFile::parse(nbytes.as_slice())
        .map_err(|e| format!("notification.xml does not parse: {e}"))?;
    let snap_uri = n.snapshot().uri().to_string();
    let mut st = RrdpState {
        session: n.session_id().to_string(),
        serial: n.serial(),
        snapshot_uri: snap_uri.clone(),
        snapshot_present: false,
        snapshot_hash_ok: false,
        snapshot_session: String::new(),
        snapshot_serial: 0,
        snapshot: BTreeMap::new(),
        deltas: vec![],
    };
    if let Some(p) = uri_to_path(repo_dir, &snap_uri) {
        if let Ok(b) = std::fs::read(&p) {
            st.snapshot_present = true;
            st.snapshot_hash_ok = n.snapshot().hash().matches(&b);
            if let Ok(s) = Snapshot::parse(b.as_slice()) {
                st.snapshot_session = s.session_id().to_string();
                st.snapshot_serial = s.serial();
                for e in s.into_elements() {
                    let (uri, data) = e.unpack();
                    st.snapshot.insert(uri.to_string(), data.to_vec());
                }
            } else {
                st.snapshot_hash_ok = false;
            }
        }
    }
    for d in n.deltas() {
        let uri = d.uri().to_string();
        let path = uri_to_path(repo_dir, &uri).unwrap_or_default();
        let hash_ok = std::fs::read(&path).ok().map(|b| d.hash().matches(&b));
        st.deltas.push(DeltaRef { serial: d.serial(), uri, path, hash_ok });
    }
    st.deltas.sort_by_key(|d| d.serial);
    Ok(st)
}

/// Applies a delta file to an object map. Err on hash/precondition failure.
pub fn apply_delta(
    path: &Path, session: &str, expect_serial: u64,
    state: &mut BTreeMap<String, Vec<u8>>,
) -> Result<(), String> {
    let b = std::fs::read(path).map_err(|e| format!("delta unreadable: {e}"))?;
    let d = Delta::parse(b.as_slice()).map_err(|e| format!("delta parse: {e}"))?;
    if d.session_id().to_string() != session {
        return Err("delta of another session".into())
    }
    if d.serial() != expect_serial {
        return Err(format!("delta serial {} != {expect_serial}", d.serial()))
    }
    for e in d.into_elements() {
        match e {
            DeltaElement::Publish(p) => {
                let (uri, data) = p.unpack();
                let uri = uri.to_string();
                if state.contains_key(&uri) {
                    return Err(format!("publish of present object {uri}"))
                }
                state.insert(uri, data.to_vec());
            }
            DeltaElement::Update(u) => {
                let (uri, hash, data) = u.unpack();
                let uri = uri.to_string();
                match state.get(&uri) {
                    Some(old) if hash.matches(old) => {}
                    Some(_) => return Err(format!("update hash mismatch {uri}")),
                    None => return Err(format!("update of absent {uri}")),
                }
                state.insert(uri, data.to_vec());
            }
            DeltaElement::Withdraw(wd) => {
                let (uri, hash) = wd.unpack();
                let uri = uri.to_string();
                match state.get(&uri) {
                    Some(old) if hash.matches(old) => {}
                    Some(_) => return Err(format!("withdraw hash mismatch {uri}")),
                    None => return Err(format!("withdraw of absent {uri}")),
                }
                state.remove(&uri);
            }
        }
    }
    Ok(())
}

/// The rsync tree under repo/rsync/current as uri -> bytes.
pub fn read_rsync(repo_dir: &Path) -> BTreeMap<String, Vec<u8>> {
    let cur = repo_dir.join("rsync").join("current");
    crate::util::read_tree(&cur).into_iter().map(|(rel, b)| {
        (format!("{RSYNC_BASE_URI}{rel}"), b)
    }).collect()
}
