//! Oracles over a [`World`]: observation (RP walk of what the publication
//! server holds), the C01 exactness/validity check, the C02 delegation
//! checks and the C03 revocation ledger.

use std::collections::{BTreeMap, BTreeSet};
use std::net::IpAddr;
use bytes::Bytes;
use krill::api::ca::ResourceClassKeysInfo;
use rpki::repository::resources::ResourceSet;
use rpki::repository::x509::Time;
use crate::rp::{self, ObjSeen, RpView, Vrp};
use crate::world::{h, World};

pub type Issue = (String, String); // (signature, detail)

//------------ Observation ---------------------------------------------------

pub struct Observation {
    pub files: BTreeMap<String, Bytes>,
    pub view: RpView,
    pub state_hash: u64,
}

pub fn observe(w: &World) -> Option<Observation> {
    let files = w.publisher_files();
    let ta = w.ta_cert()?;
    let view = rp::walk(&ta, &files);
    let state_hash = view.state_hash(&files);
    Some(Observation { files, view, state_hash })
}

/// Hash of repository content only (no walk).
pub fn repo_hash(w: &World) -> u64 {
    let files = w.publisher_files();
    let mut s = String::new();
    for (u, b) in &files {
        s.push_str(u);
        s.push_str(&format!("{:016x};", crate::util::fnv(b)));
    }
    crate::util::fnv(s.as_bytes())
}

/// Brings background work up to date: quiesce, then rounds of "every CA
/// calls its parents" until the repository no longer changes. Returns
/// (caught up, rounds used, fatal task outcomes seen).
pub fn catch_up(w: &mut World, max_rounds: usize) -> (bool, usize, Vec<String>) {
    let mut fatal = vec![];
    let (runs, ok) = w.quiesce();
    for r in &runs { if let Some(f) = r.fatal() { fatal.push(format!("{}: {f}", r.name())) } }
    if !ok { return (false, 0, fatal) }
    let mut last = repo_hash(w);
    for round in 1..=max_rounds {
        let (runs, ok) = w.sync_round();
        for r in &runs { if let Some(f) = r.fatal() { fatal.push(format!("{}: {f}", r.name())) } }
        if !ok { return (false, round, fatal) }
        let now = repo_hash(w);
        if now == last && !has_open_requests(w) {
            return (true, round, fatal)
        }
        last = now;
    }
    if std::env::var("KVH_DEBUG_CATCHUP").is_ok() {
        eprintln!("catch_up: not settled: open requests {}; pending {:?}; remote pending {:?}",
            has_open_requests(w),
            w.pending().iter().map(|p| p.1.clone()).collect::<Vec<_>>(),
            w.remote.as_ref().map(|r| r.pending().iter().map(|p| p.1.clone()).collect::<Vec<_>>()));
        for ca in w.ca_handles() {
            if let Ok(c) = w.krill.ca_manager().get_ca(&h(&ca)) {
                for p in c.parents() {
                    if c.has_pending_requests(p) {
                        eprintln!("  {ca} has pending requests for {p}; known: {}", parent_knows(w, p.as_str(), &ca));
                    }
                }
            }
        }
    }
    (false, max_rounds, fatal)
}

/// Whether any CA still has an open certificate or revocation request.
pub fn has_open_requests(w: &World) -> bool {
    for ca in w.ca_handles() {
        if ca == "ta" { continue }
        if let Ok(c) = w.krill.ca_manager().get_ca(&h(&ca)) {
            for p in c.parents() {
                // a parent that no longer knows this child can never
                // answer; that request is not "open work"
                if p.as_str() != "ta" && !parent_knows(w, p.as_str(), &ca) {
                    continue
                }
                if c.has_pending_requests(p) { return true }
            }
        }
    }
    // the CAs of the second instance are somebody's children as well
    if let Some(r) = &w.remote {
        for ca in r.ca_handles() {
            if let Ok(c) = r.krill.ca_manager().get_ca(&h(&ca)) {
                for p in c.parents() {
                    if !parent_knows(w, p.as_str(), &ca) { continue }
                    if c.has_pending_requests(p) { return true }
                }
            }
        }
    }
    false
}

/// Whether CA `parent` - in this instance or in the second one - has a
/// child `child`.
pub fn parent_knows(w: &World, parent: &str, child: &str) -> bool {
    if parent == "ta" { return true }
    if w.krill.ca_manager().ca_show_child(
        &h(parent), &h(child).convert()).is_ok() { return true }
    if let Some(r) = &w.remote {
        if r.krill.ca_manager().ca_show_child(
            &h(parent), &h(child).convert()).is_ok() { return true }
    }
    false
}

/// Every key held (in any role) by a CA of this instance or of the second
/// one -> its owner.
pub fn key_owners(w: &World) -> BTreeMap<String, String> {
    let mut owners: BTreeMap<String, String> = BTreeMap::new();
    let mut add = |w: &World| {
        for ca in w.ca_handles() {
            let r = key_roles(w, &ca);
            for k in r.active.iter().chain(r.new.iter()).chain(r.old.iter())
                .chain(r.pending.iter())
            {
                owners.insert(k.clone(), ca.clone());
            }
        }
    };
    add(w);
    if let Some(r) = &w.remote { add(r) }
    owners
}

//------------ helpers -------------------------------------------------------

fn norm_prefix(s: &str) -> String {
    if let Some((addr, len)) = s.split_once('/') {
        if let Ok(ip) = addr.parse::<IpAddr>() {
            return format!("{ip}/{len}")
        }
    }
    s.to_string()
}

fn prefix_set(s: &str) -> Option<ResourceSet> {
    if s.contains(':') {
        ResourceSet::from_strs("", "", s).ok()
    } else {
        ResourceSet::from_strs("", s, "").ok()
    }
}

fn asn_set(asn: u32) -> ResourceSet {
    ResourceSet::from_strs(&format!("AS{asn}"), "", "").unwrap()
}

/// Per CA: the key ids by role, from the API view.
#[derive(Default, Debug, Clone)]
pub struct KeyRoles {
    pub active: BTreeSet<String>,
    pub new: BTreeSet<String>,
    pub old: BTreeSet<String>,
    pub pending: BTreeSet<String>,
    /// resource class name -> (parent, state name)
    pub classes: BTreeMap<String, (String, &'static str)>,
}

pub fn key_roles(w: &World, ca: &str) -> KeyRoles {
    let mut roles = KeyRoles::default();
    let Ok(c) = w.krill.ca_manager().get_ca(&h(ca)) else { return roles };
    let info = c.as_ca_info();
    for (rcn, rc) in &info.resource_classes {
        let state = match &rc.keys {
            ResourceClassKeysInfo::Pending(p) => {
                roles.pending.insert(p.pending_key.key_id.to_string());
                "pending"
            }
            ResourceClassKeysInfo::Active(a) => {
                roles.active.insert(a.active_key.key_id.to_string());
                "active"
            }
            ResourceClassKeysInfo::RollPending(p) => {
                roles.pending.insert(p.pending_key.key_id.to_string());
                roles.active.insert(p.active_key.key_id.to_string());
                "roll_pending"
            }
            ResourceClassKeysInfo::RollNew(n) => {
                roles.new.insert(n.new_key.key_id.to_string());
                roles.active.insert(n.active_key.key_id.to_string());
                "roll_new"
            }
            ResourceClassKeysInfo::RollOld(o) => {
                roles.old.insert(o.old_key.key_id.to_string());
                roles.active.insert(o.active_key.key_id.to_string());
                "roll_old"
            }
        };
        roles.classes.insert(
            rcn.to_string(), (rc.parent_handle.to_string(), state)
        );
    }
    roles
}

//------------ C01 -----------------------------------------------------------

#[derive(Default, Debug)]
pub struct C01Stats {
    pub vrps_expected: usize,
    pub aspas_expected: usize,
    pub router_keys_expected: usize,
    pub configured_uncovered: usize,
    pub api_objects_checked: usize,
    pub orphans: usize,
}

/// C01 at a caught-up point: the tree is RP-valid and the validated
/// payloads are exactly the configured-and-covered ones.
pub fn c01_check(w: &World, obs: &Observation) -> (Vec<Issue>, C01Stats) {
    let mut issues: Vec<Issue> = vec![];
    let mut stats = C01Stats::default();
    let view = &obs.view;
    stats.orphans = view.orphans.len();

    for i in &view.issues {
        let class = i.split(':').nth(
            if i.starts_with("rsync://") { 2 } else { 1 }
        ).unwrap_or("").trim().split(' ').take(3).collect::<Vec<_>>()
            .join(" ");
        issues.push((format!("rp-invalid:{}", class_of_issue(i)), format!("{i} [{class}]")));
    }

    let mut all_expected_vrps: BTreeSet<Vrp> = BTreeSet::new();
    let mut all_expected_aspas: BTreeSet<(u32, Vec<u32>)> = BTreeSet::new();
    let mut all_expected_rk: BTreeSet<(u32, String)> = BTreeSet::new();

    for ca in w.ca_handles().into_iter()
        .filter(|c| !w.oracle_skip.contains(c))
    {
        if ca == "ta" { continue }
        let Ok(c) = w.krill.ca_manager().get_ca(&h(&ca)) else { continue };
        let roles = key_roles(w, &ca);
        // RP-validated certificates for this CA's active keys
        let points: Vec<&rp::CaPoint> = view.cas.iter()
            .filter(|p| roles.active.contains(&p.key_id)).collect();
        let covered = |set: &ResourceSet| {
            points.iter().any(|p| p.resources.contains(set))
        };

        // --- ROAs
        let mut expected: BTreeSet<Vrp> = BTreeSet::new();
        for conf in c.configured_roas() {
            let payload = &conf.roa_configuration.payload;
            let pfx = norm_prefix(&payload.prefix.to_string());
            let Some(set) = prefix_set(&pfx) else { continue };
            let plen: u8 = pfx.rsplit('/').next().unwrap().parse().unwrap();
            let maxlen = payload.max_length.unwrap_or(plen);
            if covered(&set) {
                expected.insert((rpki::resources::Asn::from(payload.asn).into_u32(), pfx, maxlen));
            } else {
                stats.configured_uncovered += 1;
            }
            for obj in &conf.roa_objects {
                stats.api_objects_checked += 1;
                let uri = obj.uri.to_string();
                match obs.files.get(&uri) {
                    None => issues.push((
                        "api-object-not-in-repo".into(),
                        format!("{ca}: ROA object {uri} reported by the API \
                                 for {payload} is not in the repository"),
                    )),
                    Some(b) => {
                        if !obj.hash.matches(b) {
                            issues.push((
                                "api-object-hash-mismatch".into(),
                                format!("{ca}: {uri} differs from API"),
                            ));
                        }
                    }
                }
            }
        }
        let got: BTreeSet<Vrp> = points.iter()
            .flat_map(|p| p.vrps.iter().cloned())
            .map(|(a, p, m)| (a, norm_prefix(&p), m)).collect();
        for v in expected.difference(&got) {
            issues.push(("vrp-missing".into(), format!(
                "{ca}: configured and covered but not validated: {v:?}"
            )));
        }
        for v in got.difference(&expected) {
            issues.push(("vrp-extra".into(), format!(
                "{ca}: validated but not configured-and-covered: {v:?}"
            )));
        }
        stats.vrps_expected += expected.len();
        all_expected_vrps.extend(expected);

        // --- ASPAs
        let mut expected: BTreeSet<(u32, Vec<u32>)> = BTreeSet::new();
        for def in c.aspas_definitions_show().as_slice() {
            let customer: u32 = def.customer.into_u32();
            if covered(&asn_set(customer)) {
                let mut provs: Vec<u32> = def.providers.iter()
                    .map(|p| p.into_u32()).collect();
                provs.sort();
                expected.insert((customer, provs));
            } else {
                stats.configured_uncovered += 1;
            }
        }
        let got: BTreeSet<(u32, Vec<u32>)> = points.iter()
            .flat_map(|p| p.aspas.iter().cloned()).collect();
        for v in expected.difference(&got) {
            issues.push(("aspa-missing".into(), format!(
                "{ca}: configured and covered ASPA not validated: {v:?}"
            )));
        }
        for v in got.difference(&expected) {
            issues.push(("aspa-extra".into(), format!(
                "{ca}: validated ASPA not configured-and-covered: {v:?}"
            )));
        }
        stats.aspas_expected += expected.len();
        all_expected_aspas.extend(expected);

        // --- router keys
        let mut expected: BTreeSet<(u32, String)> = BTreeSet::new();
        let defs = serde_json::to_value(c.bgpsec_definitions_show()).unwrap();
        for def in defs.as_array().cloned().unwrap_or_default() {
            let asn = def["asn"].as_u64().unwrap_or(0) as u32;
            let key = def["key_identifier"].as_str().unwrap_or("")
                .to_string();
            if covered(&asn_set(asn)) {
                expected.insert((asn, key));
            } else {
                stats.configured_uncovered += 1;
            }
        }
        let got: BTreeSet<(u32, String)> = points.iter()
            .flat_map(|p| p.router_keys.iter().cloned()).collect();
        for v in expected.difference(&got) {
            issues.push(("router-key-missing".into(), format!(
                "{ca}: configured and covered router key not validated: {v:?}"
            )));
        }
        for v in got.difference(&expected) {
            issues.push(("router-key-extra".into(), format!(
                "{ca}: validated router key not configured: {v:?}"
            )));
        }
        stats.router_keys_expected += expected.len();
        all_expected_rk.extend(expected);
    }

    // Nothing extra anywhere in the tree (keys that are nobody's active key)
    let all_got: BTreeSet<Vrp> = view.vrps().into_iter()
        .map(|(a, p, m)| (a, norm_prefix(&p), m)).collect();
    for v in all_got.difference(&all_expected_vrps) {
        issues.push(("vrp-extra-global".into(), format!(
            "validated VRP that no CA has configured-and-covered: {v:?}"
        )));
    }
    for v in view.aspas().difference(&all_expected_aspas) {
        issues.push(("aspa-extra-global".into(), format!(
            "validated ASPA that no CA has configured-and-covered: {v:?}"
        )));
    }
    for v in view.router_keys().difference(&all_expected_rk) {
        issues.push(("router-key-extra-global".into(), format!(
            "validated router key that no CA has configured: {v:?}"
        )));
    }
    dedup(&mut issues);
    (issues, stats)
}

fn class_of_issue(i: &str) -> &'static str {
    for (needle, class) in [
        ("listed but missing", "listed-but-missing"),
        ("present but unlisted", "present-but-unlisted"),
        ("missing for valid CA", "manifest-missing"),
        ("hash mismatch", "hash-mismatch"),
        ("not current", "not-current"),
        ("revoked but published", "revoked-published"),
        ("manifest EE revoked", "mft-ee-revoked"),
        ("CA certificate invalid", "ca-cert-invalid"),
        ("ROA invalid", "roa-invalid"),
        ("ASPA invalid", "aspa-invalid"),
        ("router certificate invalid", "router-cert-invalid"),
        ("decode", "decode"),
        ("bad signature", "bad-signature"),
        ("CRL", "crl"),
        ("certified twice", "key-certified-twice"),
    ] {
        if i.contains(needle) { return class }
    }
    "other"
}

fn dedup(issues: &mut Vec<Issue>) {
    let mut seen = BTreeSet::new();
    issues.retain(|i| seen.insert(i.clone()));
}

//------------ C03 ledger ----------------------------------------------------

/// Cumulative ledger of every object the RP walk ever saw.
#[derive(Default)]
pub struct Ledger {
    /// (issuer key, serial) -> object
    pub entries: BTreeMap<(String, String), ObjSeen>,
    pub superseded_on_crl: u64,
    pub superseded_expired_or_no_crl: u64,
    pub causes: BTreeSet<String>,
    /// the operation kind after which the current check runs
    pub cause_now: String,
    seen_superseded: BTreeSet<(String, String)>,
}

impl Ledger {
    pub fn record(&mut self, view: &RpView) {
        for o in &view.objects {
            self.entries.entry((o.issuer_key.clone(), o.serial.clone()))
                .or_insert_with(|| o.clone());
        }
    }

    /// Classifies every entry against the current observation. Must be
    /// called at points where repository synchronisation has run.
    pub fn check(&mut self, obs: &Observation) -> (Vec<Issue>, u64) {
        let mut issues = vec![];
        let mut classified = 0u64;
        let now = Time::now().timestamp();
        let current: BTreeSet<(String, String)> = obs.view.objects.iter()
            .map(|o| (o.issuer_key.clone(), o.serial.clone())).collect();
        for ((key, serial), o) in &self.entries {
            classified += 1;
            // "current": the very same object (uri + hash) is still listed
            // on its issuer's manifest
            let still_listed = obs.view.ca_by_key(key).map(|p| {
                p.listed.get(&o.uri).map(|h| *h == o.hash).unwrap_or(false)
            }).unwrap_or(false);
            if still_listed && current.contains(&(key.clone(), serial.clone())) {
                continue
            }
            // superseded: must not be served with the old content
            if let Some(b) = obs.files.get(&o.uri) {
                let hash = hex::encode(
                    rpki::rrdp::Hash::from_data(b).as_slice()
                );
                if hash == o.hash {
                    // the identical bytes are still in the repository
                    // although no manifest of a valid CA lists them
                    let dir = &o.uri[..o.uri.rfind('/').unwrap() + 1];
                    if obs.view.dirs.contains(dir) {
                        issues.push((
                            format!("superseded-still-published:{}", o.kind),
                            format!("{} (serial {serial}, issuer {key}) is \
                                     no longer current but still present",
                                    o.uri),
                        ));
                    }
                }
            }
            match obs.view.ca_by_key(key) {
                Some(p) if o.not_after > now => {
                    if p.crl.contains(o.serial_raw) {
                        self.superseded_on_crl += 1;
                        if self.seen_superseded.insert(
                            (key.clone(), serial.clone())
                        ) {
                            self.causes.insert(format!(
                                "{}|{}", o.kind, self.cause_now
                            ));
                        }
                    } else {
                        issues.push((
                            format!("superseded-not-on-crl:{}", o.kind),
                            format!("{} serial {serial}: no longer current, \
                                     unexpired, but absent from the CRL of \
                                     key {key} (CRL {})",
                                    o.uri, p.crl_number),
                        ));
                    }
                }
                _ => self.superseded_expired_or_no_crl += 1,
            }
        }
        dedup(&mut issues);
        (issues, classified)
    }
}

//------------ stored child certificates --------------------------------------

/// A CA certificate found in a CA's own object store (`ca_objects`), i.e.
/// as soon as the command that issued it has been processed - before any
/// repository synchronisation.
#[derive(Clone, Debug)]
pub struct StoredChildCert {
    pub name: String,
    pub aki: String,
    pub ski: String,
    pub serial: String,
    pub resources: ResourceSet,
}

/// Child certificates in the object store of `issuer` (all key sets).
pub fn stored_child_certs(w: &World, issuer: &str) -> Vec<StoredChildCert> {
    use base64::Engine;
    use krill::commons::storage::Ident;
    let mut res = vec![];
    let Ok(kv) = w.krill.storage().open(krill::constants::CA_OBJECTS_NS)
        else { return res };
    let key_s = format!("{issuer}.json");
    let Ok(key) = Ident::from_str(&key_s) else { return res };
    let Ok(Some(v)) = kv.get::<serde_json::Value>(None, key) else { return res };
    fn walk(v: &serde_json::Value, out: &mut Vec<(String, String)>) {
        match v {
            serde_json::Value::Object(m) => {
                for (k, x) in m {
                    if k == "published_objects" {
                        if let Some(po) = x.as_object() {
                            for (name, o) in po {
                                if let Some(b) = o["base64"].as_str() {
                                    out.push((name.clone(), b.to_string()));
                                }
                            }
                        }
                    } else {
                        walk(x, out)
                    }
                }
            }
            serde_json::Value::Array(a) => for x in a { walk(x, out) },
            _ => {}
        }
    }
    let mut found = vec![];
    walk(&v, &mut found);
    for (name, b64) in found {
        if !name.ends_with(".cer") { continue }
        let Ok(bytes) = base64::engine::general_purpose::STANDARD.decode(&b64)
            else { continue };
        let Ok(cert) = rpki::repository::cert::Cert::decode(Bytes::from(bytes))
            else { continue };
        if !cert.is_ca() { continue }
        let Some(aki) = cert.authority_key_identifier() else { continue };
        let Ok(resources) = ResourceSet::try_from(&cert) else { continue };
        res.push(StoredChildCert {
            name, aki: aki.to_string(),
            ski: cert.subject_key_identifier().to_string(),
            serial: cert.serial_number().to_string(), resources,
        });
    }
    res
}

//------------ certificates for dropped keys ----------------------------------

/// Every published (and RP-valid) CA certificate must be for a key that some
/// CA still has: a child drops a key when its class goes away or after a
/// roll, and the revocation it sends (directly or through the
/// `ResourceClassRemoved` task) makes the parent withdraw the certificate.
/// To be used at caught-up points only.
pub fn dropped_key_issues(w: &World, obs: &Observation) -> Vec<Issue> {
    let owners = key_owners(w);
    let mut issues = vec![];
    for p in &obs.view.cas {
        for (uri, ski, _res) in &p.child_certs {
            if !owners.contains_key(ski) {
                issues.push((
                    "published-cert-for-dropped-key".into(),
                    format!("{uri}: subject key {ski} is no longer a \
                             key of any CA, but the certificate is \
                             still published and valid"),
                ));
            }
        }
    }
    issues
}

/// Operations (on top of `hist::standard_forest`) that give a CA three
/// resource classes under ONE parent and then take two of them away in a
/// single entitlement change.
pub fn three_classes_script() -> Vec<crate::hist::Op> {
    use crate::hist::Op;
    let roa = |ca: &str, add: &[&str]| Op::RoaDelta {
        ca: ca.into(), add: add.iter().map(|s| s.to_string()).collect(),
        remove: vec![],
    };
    vec![
        Op::AddCa { ca: "p3".into(), parent: "ta".into(),
            asn: "AS65021-AS65025".into(), v4: "192.168.0.0/16".into(),
            v6: "".into() },
        Op::Quiesce,
        Op::AddParent { ca: "c2".into(), parent: "p3".into(),
            asn: "AS65021".into(), v4: "192.168.1.0/24".into(), v6: "".into() },
        Op::Quiesce,
        Op::AddCa { ca: "k3".into(), parent: "c2".into(),
            asn: "AS65004, AS65010, AS65021".into(),
            v4: "10.128.0.0/16, 172.16.0.0/16, 192.168.1.0/24".into(),
            v6: "".into() },
        Op::Quiesce, Op::SyncAll, Op::Quiesce,
        roa("k3", &["10.128.0.0/24 => 65004", "172.16.0.0/24 => 65010",
                    "192.168.1.0/24 => 65021"]),
        Op::Quiesce,
        Op::ChildUpdate { parent: "c2".into(), child: "k3".into(),
            asn: "AS65004".into(), v4: "10.128.0.0/16".into(), v6: "".into() },
        Op::SyncAll, Op::Quiesce, Op::SyncAll, Op::Quiesce,
    ]
}
