//! Small shared helpers: PRNG, argument parsing, shard reports.

use std::collections::{BTreeMap, BTreeSet};
use std::path::{Path, PathBuf};
use std::time::Instant;
use serde_json::{json, Value};

//------------ Rng -----------------------------------------------------------

/// SplitMix64. Deterministic from the seed, no external crate.
#[derive(Clone, Debug)]
pub struct Rng(pub u64);

impl Rng {
    pub fn new(seed: u64) -> Self {
        Rng(seed ^ 0x9E37_79B9_7F4A_7C15)
    }
    pub fn next(&mut self) -> u64 {
        self.0 = self.0.wrapping_add(0x9E37_79B9_7F4A_7C15);
        let mut z = self.0;
        z = (z ^ (z >> 30)).wrapping_mul(0xBF58_476D_1CE4_E5B9);
        z = (z ^ (z >> 27)).wrapping_mul(0x94D0_49BB_1331_11EB);
        z ^ (z >> 31)
    }
    /// Uniform in 0..n (n > 0).
    pub fn below(&mut self, n: u64) -> u64 {
        if n == 0 { 0 } else { self.next() % n }
    }
    pub fn range(&mut self, lo: u64, hi_incl: u64) -> u64 {
        lo + self.below(hi_incl - lo + 1)
    }
    pub fn chance(&mut self, num: u64, den: u64) -> bool {
        self.below(den) < num
    }
    pub fn pick<'a, T>(&mut self, items: &'a [T]) -> &'a T {
        &items[self.below(items.len() as u64) as usize]
    }
    pub fn shuffle<T>(&mut self, items: &mut [T]) {
        for i in (1..items.len()).rev() {
            let j = self.below(i as u64 + 1) as usize;
            items.swap(i, j);
        }
    }
    /// Pick an index according to weights.
    pub fn weighted(&mut self, weights: &[u32]) -> usize {
        let total: u64 = weights.iter().map(|w| *w as u64).sum();
        let mut x = self.below(total.max(1));
        for (i, w) in weights.iter().enumerate() {
            if x < *w as u64 { return i }
            x -= *w as u64;
        }
        weights.len() - 1
    }
    pub fn bytes(&mut self, n: usize) -> Vec<u8> {
        (0..n).map(|_| self.next() as u8).collect()
    }
}

//------------ Args ----------------------------------------------------------

/// Arguments every check worker understands.
#[derive(Clone, Debug)]
pub struct Args {
    pub seed: u64,
    pub tier: String,
    pub shard: u64,
    pub nshards: u64,
    pub work: PathBuf,
    pub out: PathBuf,
    pub replay: Option<PathBuf>,
    pub budget_s: u64,
    pub extra: BTreeMap<String, String>,
}

impl Args {
    pub fn parse() -> Args {
        let mut a = Args {
            seed: 1, tier: "quick".into(), shard: 0, nshards: 1,
            work: PathBuf::from("/verif/.work/adhoc"),
            out: PathBuf::from("/verif/.work/adhoc/out.json"),
            replay: None, budget_s: 60, extra: BTreeMap::new(),
        };
        let argv: Vec<String> = std::env::args().skip(1).collect();
        let mut i = 0;
        while i < argv.len() {
            let k = argv[i].clone();
            let v = argv.get(i + 1).cloned().unwrap_or_default();
            match k.as_str() {
                "--seed" => a.seed = v.parse().expect("seed"),
                "--tier" => a.tier = v,
                "--shard" => a.shard = v.parse().expect("shard"),
                "--nshards" => a.nshards = v.parse().expect("nshards"),
                "--work" => a.work = PathBuf::from(v),
                "--out" => a.out = PathBuf::from(v),
                "--replay" => a.replay = Some(PathBuf::from(v)),
                "--budget" => a.budget_s = v.parse().expect("budget"),
                other if other.starts_with("--") => {
                    a.extra.insert(other[2..].to_string(), v);
                }
                other => panic!("unexpected argument {other}"),
            }
            i += 2;
        }
        a
    }
    pub fn thorough(&self) -> bool { self.tier == "thorough" }
    /// The seed for this shard.
    pub fn shard_seed(&self) -> u64 {
        self.seed.wrapping_mul(1000).wrapping_add(self.shard)
    }
    pub fn extra_u64(&self, key: &str, default: u64) -> u64 {
        self.extra.get(key).and_then(|v| v.parse().ok()).unwrap_or(default)
    }
}

//------------ Report --------------------------------------------------------

/// What one worker process observed. Merged by tools/run_check.py.
pub struct Report {
    pub check: String,
    pub args: Args,
    pub started: Instant,
    pub counters: BTreeMap<String, u64>,
    pub distinct: BTreeMap<String, BTreeSet<String>>,
    pub samples: Vec<Value>,
    pub violations: Vec<Value>,
    pub inconclusive: Vec<String>,
    pub notes: BTreeMap<String, Value>,
    max_samples: usize,
}

impl Report {
    pub fn new(check: &str, args: &Args) -> Report {
        Report {
            check: check.to_string(), args: args.clone(),
            started: Instant::now(),
            counters: BTreeMap::new(), distinct: BTreeMap::new(),
            samples: vec![], violations: vec![], inconclusive: vec![],
            notes: BTreeMap::new(), max_samples: 4,
        }
    }
    pub fn count(&mut self, key: &str, n: u64) {
        *self.counters.entry(key.to_string()).or_insert(0) += n;
    }
    pub fn max(&mut self, key: &str, n: u64) {
        let e = self.counters.entry(format!("max_{key}")).or_insert(0);
        if n > *e { *e = n }
    }
    pub fn eval(&mut self) { self.count("evaluations", 1) }
    pub fn distinct(&mut self, set: &str, key: impl Into<String>) {
        self.distinct.entry(set.to_string()).or_default().insert(key.into());
    }
    /// A distinct non-trivial case by the check's stated rule.
    pub fn nontrivial(&mut self, key: impl Into<String>) {
        self.distinct("nontrivial", key)
    }
    pub fn sample(&mut self, v: Value) {
        if self.samples.len() < self.max_samples { self.samples.push(v) }
    }
    pub fn note(&mut self, key: &str, v: Value) {
        self.notes.insert(key.to_string(), v);
    }
    pub fn inconclusive(&mut self, what: impl Into<String>) {
        let what = what.into();
        eprintln!("INCONCLUSIVE {what}");
        self.inconclusive.push(what);
    }
    /// Records a violation. `signature` is the exact identity used to match
    /// known findings; `witness` is written to a replay file.
    pub fn violation(
        &mut self, signature: &str, detail: &str, witness: Value
    ) {
        let dir_s = std::env::var("KVH_REPLAY_DIR")
            .unwrap_or_else(|_| "/verif/replays".to_string());
        let dir = Path::new(&dir_s);
        let _ = std::fs::create_dir_all(dir);
        let safe: String = signature.chars().map(|c| {
            if c.is_ascii_alphanumeric() || c == '-' || c == '_' { c } else { '_' }
        }).take(80).collect();
        let path = dir.join(format!(
            "{}_{}_s{}_{}.json", self.check, safe, self.args.seed,
            self.args.shard
        ));
        let doc = json!({
            "property": self.check, "signature": signature,
            "detail": detail, "seed": self.args.seed,
            "shard": self.args.shard, "tier": self.args.tier,
            "witness": witness,
        });
        // keep the first witness of a signature (it matches the detail
        // kept in the report)
        let path = if path.exists() {
            let mut n = 2;
            loop {
                let p = dir.join(format!(
                    "{}_{}_s{}_{}_{n}.json", self.check, safe,
                    self.args.seed, self.args.shard
                ));
                if !p.exists() || n > 20 { break p }
                n += 1;
            }
        } else { path };
        let _ = std::fs::write(
            &path, serde_json::to_vec_pretty(&doc).unwrap()
        );
        eprintln!("violation: {signature}: {detail}");
        // keep one entry per signature in the report
        if !self.violations.iter().any(|v| v["signature"] == signature) {
            self.violations.push(json!({
                "signature": signature, "detail": detail,
                "replay": path.to_string_lossy(),
            }));
        }
        self.count("violations_raw", 1);
    }
    pub fn elapsed_s(&self) -> f64 { self.started.elapsed().as_secs_f64() }
    /// True while the time budget of this worker is not used up.
    pub fn within_budget(&self) -> bool {
        self.started.elapsed().as_secs() < self.args.budget_s
    }
    pub fn to_json(&self) -> Value {
        json!({
            "check": self.check, "shard": self.args.shard,
            "seed": self.args.seed, "tier": self.args.tier,
            "counters": self.counters,
            "distinct": self.distinct,
            "samples": self.samples,
            "violations": self.violations,
            "inconclusive": self.inconclusive,
            "notes": self.notes,
            "wall_s": self.elapsed_s(),
        })
    }
    /// Writes the shard report (atomically) and clears the in-flight marker.
    pub fn write(&self) {
        if let Some(p) = self.args.out.parent() {
            let _ = std::fs::create_dir_all(p);
        }
        let tmp = self.args.out.with_extension("tmp");
        std::fs::write(
            &tmp, serde_json::to_vec_pretty(&self.to_json()).unwrap()
        ).expect("write report");
        std::fs::rename(&tmp, &self.args.out).expect("rename report");
        let _ = std::fs::remove_file(inflight_path(&self.args.out));
    }
}

/// Path of the in-flight marker next to a report.
pub fn inflight_path(out: &Path) -> PathBuf {
    out.with_extension("inflight")
}

/// Records what is about to be executed, so that a process exit inside the
/// code under test can be attributed by the driver.
pub fn mark_inflight(out: &Path, what: &Value) {
    let _ = std::fs::write(
        inflight_path(out), serde_json::to_vec(what).unwrap()
    );
}

/// Recursively copies a directory.
pub fn copy_dir(src: &Path, dst: &Path) -> std::io::Result<()> {
    std::fs::create_dir_all(dst)?;
    for entry in std::fs::read_dir(src)? {
        let entry = entry?;
        let ty = entry.file_type()?;
        let to = dst.join(entry.file_name());
        if ty.is_dir() {
            copy_dir(&entry.path(), &to)?;
        } else if ty.is_file() {
            std::fs::copy(entry.path(), &to)?;
        }
    }
    Ok(())
}

/// Lists all files under a directory as (relative path, bytes).
pub fn read_tree(dir: &Path) -> BTreeMap<String, Vec<u8>> {
    fn rec(base: &Path, dir: &Path, out: &mut BTreeMap<String, Vec<u8>>) {
        let Ok(rd) = std::fs::read_dir(dir) else { return };
        for e in rd.flatten() {
            let p = e.path();
            if p.is_dir() { rec(base, &p, out) }
            else if let Ok(b) = std::fs::read(&p) {
                out.insert(
                    p.strip_prefix(base).unwrap().to_string_lossy().into(),
                    b
                );
            }
        }
    }
    let mut out = BTreeMap::new();
    rec(dir, dir, &mut out);
    out
}

/// FNV-1a 64 for cheap state digests.
pub fn fnv(data: &[u8]) -> u64 {
    let mut h: u64 = 0xcbf29ce484222325;
    for b in data { h ^= *b as u64; h = h.wrapping_mul(0x100000001b3); }
    h
}

/// Runs a closure catching panics; returns Err(message) on panic.
pub fn catch<T>(f: impl FnOnce() -> T) -> Result<T, String> {
    match std::panic::catch_unwind(std::panic::AssertUnwindSafe(f)) {
        Ok(v) => Ok(v),
        Err(e) => {
            let msg = if let Some(s) = e.downcast_ref::<&str>() {
                s.to_string()
            } else if let Some(s) = e.downcast_ref::<String>() {
                s.clone()
            } else { "panic".to_string() };
            Err(msg)
        }
    }
}
