//! kvh — krill verification harness: shared engines for the runtime
//! monitors of /verif (see /verif/DESIGN.md).

pub mod util;
pub mod world;
pub mod rp;
pub mod hist;
pub mod oracle;
pub mod runner;
pub mod rrdpview;
pub mod hooks;
pub mod remote;
