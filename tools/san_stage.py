"""Sanitizer stages of tools/run_check.py (thorough tier of C07, C09, C18).

Two kinds of stage:

* "miri": the FFI-free slice of krill (memory storage back-end,
  AggregateStore with a toy aggregate, task Queue) in harness/src/bin/san.rs
  runs under `cargo +nightly miri run`, one process per shard, each with its
  own -Zmiri-seed (Miri's scheduler and address/alignment choices are seeded,
  so every shard is another schedule) and with the verif yield hook turning
  krill's yield points into thread switches.  Miri reports undefined
  behaviour and data races on executed paths and deadlocks of the whole
  program; the behavioural history checker of the worker runs as well.
* "tsan": the regular worker of the check (real OS threads, OpenSSL, disk
  and memory back-ends) built with -Zsanitizer=thread -Zbuild-std.

Verdicts (three-valued):
  violation     a sanitizer report whose stack contains a frame of krill's
                own sources (/repo/src/), a deadlock reported by Miri, or a
                violation found by the worker's own monitor under the
                sanitizer;
  inconclusive  the sanitizer tool-chain cannot be built here, a shard timed
                out, Miri hit an operation it does not support, or a report
                without any krill frame (recorded verbatim in the evidence);
  held          otherwise - on the histories the evidence counts.
"""
import fcntl
import json
import os
import re
import shutil
import subprocess
import time
from concurrent.futures import ThreadPoolExecutor

VERIF = "/verif"
HARNESS = f"{VERIF}/harness"
TARGET_TRIPLE = "x86_64-unknown-linux-gnu"


def _run(cmd, env, cwd, timeout, logf):
    t0 = time.time()
    try:
        with open(logf, "w") as lf:
            p = subprocess.run(cmd, stdout=lf, stderr=subprocess.STDOUT,
                               timeout=timeout, env=env, cwd=cwd)
        return p.returncode, time.time() - t0
    except subprocess.TimeoutExpired:
        return None, time.time() - t0


def _krill_frame(text):
    """First stack frame inside krill's own sources, normalised."""
    m = re.search(r"(/repo/src/[\w/.-]+\.rs):(\d+)", text)
    if not m:
        return None
    return m.group(1).replace("/repo/", "")


def _merge_report(path, out):
    try:
        rep = json.load(open(path))
    except Exception:  # noqa: BLE001
        return False
    for k, v in rep.get("counters", {}).items():
        out["counters"][k] = out["counters"].get(k, 0) + v
    for k, v in rep.get("distinct", {}).items():
        out["distinct"].setdefault(k, set()).update(v)
    for v in rep.get("violations", []):
        if not any(x["signature"] == v["signature"]
                   for x in out["violations"]):
            out["violations"].append(v)
    if rep.get("samples") and not out["samples"]:
        out["samples"] = rep["samples"][:1]
    return True


def miri_stage(check_id, st, seed, work, log):
    out = {"counters": {}, "distinct": {}, "violations": [],
           "inconclusive": [], "samples": [], "reports": []}
    tdir = f"{VERIF}/.target-miri"
    os.makedirs(tdir, exist_ok=True)
    os.makedirs(work, exist_ok=True)
    base_env = dict(os.environ, CARGO_NET_OFFLINE="true",
                    CARGO_TARGET_DIR=tdir)
    base_env.pop("RUSTFLAGS", None)
    base = ["cargo", "+nightly", "miri", "run", "--offline", "--bin", "san",
            "--"]
    # build + smoke run (zero histories), serialised
    with open(f"{tdir}/.build.lock", "w") as lock:
        fcntl.flock(lock, fcntl.LOCK_EX)
        env = dict(base_env, MIRIFLAGS="-Zmiri-disable-isolation")
        rc, dt = _run(base + ["--histories", "0", "--work", work, "--out",
                              f"{work}/smoke.json", "--budget", "5"],
                      env, HARNESS, 3600, f"{work}/build.log")
    out["build_s"] = round(dt, 1)
    if rc != 0 or not os.path.exists(f"{work}/smoke.json"):
        tail = "".join(open(f"{work}/build.log").readlines()[-15:])
        out["inconclusive"].append(
            f"miri stage: the Miri build/smoke run failed (rc={rc}); not a "
            f"verdict on the property: {tail[-600:]}")
        return out

    def shard(i):
        w = f"{work}/{i}"
        shutil.rmtree(w, ignore_errors=True)
        os.makedirs(w)
        mseed = seed * 1000 + i
        flags = f"-Zmiri-disable-isolation -Zmiri-seed={mseed}"
        if i % 2 == 1:
            flags += " -Zmiri-preemption-rate=0.05"
        env = dict(base_env, MIRIFLAGS=flags, RUST_BACKTRACE="1")
        cmd = base + ["--seed", str(seed), "--shard", str(i), "--work", w,
                      "--out", f"{w}/report.json", "--budget",
                      str(st["budget_s"]), "--size", "small",
                      "--mix", st.get("mix", "both")]
        rc, dt = _run(cmd, env, HARNESS, st["budget_s"] * 3 + 600,
                      f"{w}/miri.log")
        return i, rc, dt, w

    with ThreadPoolExecutor(max_workers=st["shards"]) as ex:
        results = list(ex.map(shard, range(st["shards"])))
    ok_shards = 0
    for i, rc, dt, w in results:
        text = ""
        try:
            text = open(f"{w}/miri.log", errors="replace").read()
        except OSError:
            pass
        got = _merge_report(f"{w}/report.json", out)
        if rc == 0 and got:
            ok_shards += 1
            continue
        if rc is None:
            out["inconclusive"].append(f"miri shard {i}: timed out")
            continue
        # Miri stopped the program: classify the diagnostic
        m = re.search(r"^error: (.*)$", text, re.M)
        diag = m.group(1) if m else f"exit code {rc}"
        block = text[m.start():m.start() + 6000] if m else text[-3000:]
        if "unsupported operation" in diag or "not supported" in diag:
            out["inconclusive"].append(
                f"miri shard {i}: unsupported operation: {diag[:200]}")
            continue
        kind = None
        if "Undefined Behavior" in diag or "Data race" in diag \
                or "data race" in diag.lower():
            kind = "ub"
        elif "deadlock" in diag.lower():
            kind = "deadlock"
        elif "memory leaked" in diag or "leak" in diag.lower():
            kind = "leak"
        frame = _krill_frame(block)
        out["reports"].append({"shard": i, "diagnostic": diag[:300],
                               "krill_frame": frame})
        if kind == "deadlock":
            out["violations"].append({
                "signature": "miri:deadlock",
                "detail": f"Miri: the program deadlocked (seed "
                          f"{seed * 1000 + i}): {diag[:300]}",
                "replay": f"{w}/miri.log"})
        elif kind == "ub" and frame:
            out["violations"].append({
                "signature": f"miri:ub:{frame}",
                "detail": f"Miri (seed {seed * 1000 + i}): {diag[:400]}",
                "replay": f"{w}/miri.log"})
        else:
            out["inconclusive"].append(
                f"miri shard {i}: stopped without a krill frame "
                f"({kind or 'other'}): {diag[:200]} (log {w}/miri.log)")
    out["ok_shards"] = ok_shards
    return out


def tsan_stage(check_id, st, seed, work, spec, log):
    out = {"counters": {}, "distinct": {}, "violations": [],
           "inconclusive": [], "samples": [], "reports": []}
    tdir = f"{VERIF}/.target-tsan"
    os.makedirs(tdir, exist_ok=True)
    os.makedirs(work, exist_ok=True)
    env = dict(os.environ, CARGO_NET_OFFLINE="true", CARGO_TARGET_DIR=tdir,
               RUSTFLAGS="-Zsanitizer=thread")
    cmd = ["cargo", "+nightly", "build", "-Zbuild-std", "--target",
           TARGET_TRIPLE, "--release", "--offline", "--bin", spec["bin"]]
    with open(f"{tdir}/.build.lock", "w") as lock:
        fcntl.flock(lock, fcntl.LOCK_EX)
        rc, dt = _run(cmd, env, HARNESS, 5400, f"{work}/build.log")
    out["build_s"] = round(dt, 1)
    binp = f"{tdir}/{TARGET_TRIPLE}/release/{spec['bin']}"
    if rc != 0 or not os.path.exists(binp):
        tail = "".join(open(f"{work}/build.log").readlines()[-15:])
        out["inconclusive"].append(
            f"tsan stage: the ThreadSanitizer build failed (rc={rc}); not a "
            f"verdict on the property: {tail[-600:]}")
        return out

    def shard(i):
        w = f"{work}/{i}"
        shutil.rmtree(w, ignore_errors=True)
        os.makedirs(w)
        cmd = [binp, "--seed", str(seed + 7919), "--tier", "quick",
               "--shard", str(i), "--nshards", str(st["shards"]),
               "--work", w, "--out", f"{w}/report.json",
               "--budget", str(st["budget_s"])]
        for k, v in spec.get("args", {}).get("quick", {}).items():
            cmd += [f"--{k}", str(v)]
        e = dict(os.environ)
        e.update(spec.get("env", {}))
        # the workers end with process::exit while pool threads linger:
        # thread-leak reports say nothing about races
        e["TSAN_OPTIONS"] = (f"halt_on_error=0 exitcode=0 "
                             f"report_thread_leaks=0 "
                             f"log_path={w}/tsan second_deadlock_stack=1")
        e["KVH_REPLAY_DIR"] = os.environ.get("KVH_REPLAY_DIR",
                                             f"{VERIF}/replays")
        rc, dt = _run(cmd, e, w, st["budget_s"] * 4 + 300, f"{w}/worker.log")
        return i, rc, dt, w

    with ThreadPoolExecutor(max_workers=st["shards"]) as ex:
        results = list(ex.map(shard, range(st["shards"])))
    ok_shards = 0
    seen = set()
    for i, rc, dt, w in results:
        got = _merge_report(f"{w}/report.json", out)
        if rc is None:
            out["inconclusive"].append(f"tsan shard {i}: timed out")
        elif got and rc == 0:
            ok_shards += 1
        elif not got:
            out["inconclusive"].append(
                f"tsan shard {i}: worker ended rc={rc} without a report "
                f"(log {w}/worker.log)")
        for f in sorted(os.listdir(w)):
            if not f.startswith("tsan."):
                continue
            text = open(f"{w}/{f}", errors="replace").read()
            for blk in re.split(r"(?==================\nWARNING: "
                                r"ThreadSanitizer)", text):
                m = re.search(r"WARNING: ThreadSanitizer: ([^\n(]+)", blk)
                if not m:
                    continue
                what = m.group(1).strip()
                frames = re.findall(r"(/repo/src/[\w/.-]+\.rs):\d+", blk)
                frames = [x.replace("/repo/", "") for x in frames]
                key = (what, tuple(sorted(set(frames[:2]))))
                if key in seen:
                    continue
                seen.add(key)
                out["reports"].append({"shard": i, "what": what,
                                       "krill_frames": frames[:4]})
                if frames and ("data race" in what or "deadlock" in what
                               or "lock-order" in what):
                    sig = "tsan:" + what.replace(" ", "-") + ":" + \
                        "|".join(sorted(set(frames[:2])))
                    out["violations"].append({
                        "signature": sig,
                        "detail": f"ThreadSanitizer: {what}; krill frames "
                                  f"{frames[:4]}",
                        "replay": f"{w}/{f}"})
                else:
                    out["inconclusive"].append(
                        f"tsan shard {i}: report without krill frame: "
                        f"{what} (log {w}/{f})")
    out["ok_shards"] = ok_shards
    return out


def asan_stage(check_id, st, seed, work, spec, log):
    """The regular worker of the check built with AddressSanitizer (Rust code
    instrumented; OpenSSL and libc are covered through ASan's allocator and
    its interceptors): heap overflows, use after free and double frees on the
    paths the hostile-input workload reaches. Leak detection is off (the
    workers end with process::exit)."""
    out = {"counters": {}, "distinct": {}, "violations": [],
           "inconclusive": [], "samples": [], "reports": []}
    tdir = f"{VERIF}/.target-asan"
    os.makedirs(tdir, exist_ok=True)
    os.makedirs(work, exist_ok=True)
    env = dict(os.environ, CARGO_NET_OFFLINE="true", CARGO_TARGET_DIR=tdir,
               RUSTFLAGS="-Zsanitizer=address -Cforce-frame-pointers=yes")
    cmd = ["cargo", "+nightly", "build", "--target", TARGET_TRIPLE,
           "--release", "--offline", "--bin", spec["bin"]]
    with open(f"{tdir}/.build.lock", "w") as lock:
        fcntl.flock(lock, fcntl.LOCK_EX)
        rc, dt = _run(cmd, env, HARNESS, 5400, f"{work}/build.log")
    out["build_s"] = round(dt, 1)
    binp = f"{tdir}/{TARGET_TRIPLE}/release/{spec['bin']}"
    if rc != 0 or not os.path.exists(binp):
        tail = "".join(open(f"{work}/build.log").readlines()[-15:])
        out["inconclusive"].append(
            f"asan stage: the AddressSanitizer build failed (rc={rc}); not a "
            f"verdict on the property: {tail[-600:]}")
        return out

    def shard(i):
        w = f"{work}/{i}"
        shutil.rmtree(w, ignore_errors=True)
        os.makedirs(w)
        cmd = [binp, "--seed", str(seed + 104729), "--tier", "quick",
               "--shard", str(i), "--nshards", str(st["shards"]),
               "--work", w, "--out", f"{w}/report.json",
               "--budget", str(st["budget_s"])]
        for k, v in spec.get("args", {}).get("quick", {}).items():
            cmd += [f"--{k}", str(v)]
        e = dict(os.environ)
        e.update(spec.get("env", {}))
        e["ASAN_OPTIONS"] = (f"detect_leaks=0:halt_on_error=1:exitcode=66:"
                             f"log_path={w}/asan:allocator_may_return_null=1:"
                             f"detect_stack_use_after_return=0")
        e["KVH_REPLAY_DIR"] = os.environ.get("KVH_REPLAY_DIR",
                                             f"{VERIF}/replays")
        rc, dt = _run(cmd, e, w, st["budget_s"] * 5 + 300, f"{w}/worker.log")
        return i, rc, dt, w

    with ThreadPoolExecutor(max_workers=st["shards"]) as ex:
        results = list(ex.map(shard, range(st["shards"])))
    ok_shards = 0
    seen = set()
    for i, rc, dt, w in results:
        got = _merge_report(f"{w}/report.json", out)
        if rc is None:
            out["inconclusive"].append(f"asan shard {i}: timed out")
        elif got and rc == 0:
            ok_shards += 1
        elif not got:
            out["inconclusive"].append(
                f"asan shard {i}: worker ended rc={rc} without a report "
                f"(log {w}/worker.log)")
        # reports of the worker and of every child process it started
        logs = []
        for root, _dirs, files in os.walk(w):
            logs += [os.path.join(root, f) for f in files
                     if f.startswith("asan.")]
        for f in sorted(logs):
            text = open(f, errors="replace").read()
            m = re.search(r"ERROR: AddressSanitizer: ([\w-]+)", text)
            if not m:
                continue
            what = m.group(1)
            frames = re.findall(r"(/repo/src/[\w/.-]+\.rs):\d+", text)
            frames = [x.replace("/repo/", "") for x in frames]
            other = re.findall(r" in (\S+) ", text)[:3]
            key = (what, tuple(frames[:2]), tuple(other[:2]))
            if key in seen:
                continue
            seen.add(key)
            out["reports"].append({"shard": i, "what": what,
                                   "krill_frames": frames[:4],
                                   "first_symbols": other})
            if what in ("requested-allocation-size-exceeds-maximum",
                        "allocation-size-too-big", "out-of-memory",
                        "stack-overflow"):
                # resource exhaustion, not a memory-safety error: the
                # worker's own monitor judges aborts of request processing
                out["inconclusive"].append(
                    f"asan shard {i}: {what} (log {f})")
                continue
            where = frames[0] if frames else (other[0] if other else "?")
            out["violations"].append({
                "signature": f"asan:{what}:{where}",
                "detail": f"AddressSanitizer: {what}; krill frames "
                          f"{frames[:4]}; first symbols {other}",
                "replay": f})
    out["ok_shards"] = ok_shards
    return out


def run_stages(check_id, spec, tier, seed, work_root, log):
    """Runs the stages registered for this tier; returns a list of
    (stage description, result dict)."""
    res = []
    for st in spec.get("san_stages", []):
        if tier not in st.get("tiers", ["thorough"]):
            continue
        if os.environ.get("VERIF_NO_SAN"):
            continue
        work = f"{work_root}/san-{st['kind']}"
        shutil.rmtree(work, ignore_errors=True)
        t0 = time.time()
        log(f"{check_id}: sanitizer stage {st['kind']} "
            f"({st['shards']} shards x {st['budget_s']} s)")
        if st["kind"] == "miri":
            out = miri_stage(check_id, st, seed, work, log)
        elif st["kind"] == "asan":
            out = asan_stage(check_id, st, seed, work, spec, log)
        else:
            out = tsan_stage(check_id, st, seed, work, spec, log)
        out["wall_s"] = round(time.time() - t0, 1)
        res.append((st, out))
    return res
