#!/usr/bin/env python3
"""Run registered checks against a seeded change.

usage: run_seeded.py <seeded-id> [--tier quick|thorough] [--seed N] [check ids...]

Applies /verif/seeded/<seeded-id>/patch.diff to /repo (git apply), runs the
given checks (default: the check of the property named in meta.json) with
evidence and replay files redirected to /verif/.work/seeded/<seeded-id>/, and
ALWAYS restores /repo afterwards (git checkout -- .).  Appends the outcome to
/verif/seeded/<seeded-id>/results.json.
"""
import json, os, re, subprocess, sys, time

VERIF = "/verif"

def sh(cmd, **kw):
    p = subprocess.run(cmd, shell=True, stdout=subprocess.PIPE,
                       stderr=subprocess.STDOUT, text=True, **kw)
    return p.returncode, p.stdout

def main():
    args = sys.argv[1:]
    sid = args.pop(0)
    tier, seed = "quick", "1"
    if "--tier" in args:
        i = args.index("--tier"); tier = args[i + 1]; del args[i:i + 2]
    if "--seed" in args:
        i = args.index("--seed"); seed = args[i + 1]; del args[i:i + 2]
    d = f"{VERIF}/seeded/{sid}"
    meta = json.load(open(f"{d}/meta.json"))
    checks = args or [meta["property"]]
    rc, o = sh("git -C /repo status --porcelain --untracked-files=no")
    if o.strip():
        print("refusing: /repo has uncommitted changes:\n" + o)
        return 2
    rc, o = sh(f"git -C /repo apply {d}/patch.diff")
    if rc != 0:
        # /repo has moved on since the change was written: three-way merge
        rc, o2 = sh(f"git -C /repo apply --3way {d}/patch.diff")
        sh("git -C /repo reset -q")
        if rc != 0:
            sh("git -C /repo checkout -- .")
            print("patch does not apply:\n" + o + o2)
            return 2
    work = f"{VERIF}/.work/seeded/{sid}"
    os.makedirs(work, exist_ok=True)
    env = dict(os.environ, VERIF_EVIDENCE_DIR=f"{work}/evidence",
               KVH_REPLAY_DIR=f"{work}/replays", VERIF_SEED=seed,
               KVH_KEEP="1")
    results = []
    try:
        for c in checks:
            t = time.time()
            p = subprocess.run(
                ["python3", f"{VERIF}/tools/run_check.py", c, "--tier", tier],
                env=env, stdout=subprocess.PIPE, stderr=subprocess.STDOUT,
                text=True)
            open(f"{work}/{c}_{tier}_s{seed}.log", "w").write(p.stdout)
            sigs = re.findall(r"^\s+signature: (.*)$", p.stdout, re.M)
            viol = re.findall(r"^VIOLATION property=(\S+) replay=(\S+)", p.stdout, re.M)
            summ = [l for l in p.stdout.splitlines() if "evaluations=" in l][-1:]
            r = {"check": c, "tier": tier, "seed": int(seed), "exit": p.returncode,
                 "violations": len(viol), "signatures": sorted(set(sigs))[:12],
                 "wall_s": round(time.time() - t, 1), "summary": summ,
                 "when": time.strftime("%F %T")}
            results.append(r)
            print(json.dumps(r))
    finally:
        rc, o = sh("git -C /repo checkout -- .")
        rc, o = sh("git -C /repo status --porcelain --untracked-files=no")
        if o.strip():
            print("WARNING: /repo not clean after restore:\n" + o)
    rf = f"{d}/results.json"
    old = json.load(open(rf)) if os.path.exists(rf) else []
    json.dump(old + results, open(rf, "w"), indent=1)
    return 0

if __name__ == "__main__":
    sys.exit(main())
