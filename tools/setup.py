#!/usr/bin/env python3
"""Builds every harness binary once (offline) so that the first check does
not pay for the whole build. Checks rebuild incrementally themselves."""
import os
import subprocess
import sys
sys.path.insert(0, "/verif/tools")
from checks_table import CHECKS  # noqa: E402
env = dict(os.environ)
env["CARGO_NET_OFFLINE"] = "true"
env["CARGO_TARGET_DIR"] = "/verif/.target"
os.makedirs("/verif/.target", exist_ok=True)
os.makedirs("/verif/.work", exist_ok=True)
os.makedirs("/verif/evidence", exist_ok=True)
os.makedirs("/verif/replays", exist_ok=True)
bins = sorted({c["bin"] for c in CHECKS.values()}
              | {b for c in CHECKS.values() for b in c.get("extra_bins", [])})
cmd = ["cargo", "build", "--release", "--offline"]
for b in bins:
    cmd += ["--bin", b]
r = subprocess.run(cmd, cwd="/verif/harness", env=env)
sys.exit(r.returncode)
