#!/usr/bin/env python3
"""Confirm a seeded change delivered by a sub-agent, in a scratch worktree.

usage: confirm_seeded.py <name> <out_dir> [--slot N]

<out_dir> holds patch.diff, meta.json and the demonstration (demo.diff and/or
files to be copied into the worktree, see meta.json "demo_files" or the
default: every *.rs file is copied to tests/).  Steps:
  1. fresh worktree of /repo HEAD under /tmp/cf-<name>, private target dir
     /tmp/cf-target-<slot> (re-used between confirmations of one slot);
  2. apply patch.diff; build; run the baseline test command; every test
     outside the baseline's always_fail/flaky sets must pass;
  3. add the demonstration; run it WITH the change (must fail) and WITHOUT
     (must pass);
  4. remove the worktree.
Writes <out_dir>/confirm.json and prints a one-line verdict.
"""
import json, os, re, subprocess, sys, shutil, time

def sh(cmd, cwd=None, env=None, timeout=3600):
    p = subprocess.run(cmd, shell=True, cwd=cwd, env=env, stdout=subprocess.PIPE,
                       stderr=subprocess.STDOUT, text=True, timeout=timeout)
    return p.returncode, p.stdout

def main():
    name, out = sys.argv[1], sys.argv[2]
    slot = "0"
    if "--slot" in sys.argv:
        slot = sys.argv[sys.argv.index("--slot") + 1]
    wt = f"/tmp/cf-{name}"
    tgt = f"/tmp/cf-target-{slot}"
    env = dict(os.environ, CARGO_NET_OFFLINE="true", CARGO_TARGET_DIR=tgt)
    res = {"name": name, "started": time.strftime("%F %T")}
    sh(f"git -C /repo worktree remove --force {wt}")
    # the commit the change was written against (the sub-agents' worktrees)
    base = "HEAD"
    try:
        base = json.load(open(f"{out}/meta.json")).get("base_commit", "54a30c4c")
    except Exception:
        pass
    rc, o = sh(f"git -C /repo worktree add --detach {wt} {base}")
    if rc != 0:
        print("worktree failed", o); sys.exit(2)
    try:
        rc, o = sh(f"git apply {out}/patch.diff", cwd=wt)
        res["patch_applies"] = rc == 0
        if rc != 0:
            res["error"] = o[-2000:]
            return res
        # 2. baseline
        rc, o = sh("cargo nextest run --workspace --no-fail-fast --offline --test-threads 8 --retries 2",
                   cwd=wt, env=env, timeout=5400)
        open(f"{out}/confirm_baseline.log", "w").write(o)
        b = json.load(open("/root/.vp/BASELINE.json"))
        allowed = set(b.get("always_fail", [])) | set(b.get("flaky", [])) | set(b.get("dropped_after_offline", []))
        failed = set(re.findall(r'^\s+(?:FAIL|SIGABRT|SIGSEGV|TIMEOUT)\s+\[.*?\]\s+\(\d+/\d+\)\s+(.*)$', o, re.M))
        m = re.search(r'Summary.*?(\d+) tests run: (\d+) passed(?:, (\d+) failed)?', o)
        res["baseline_summary"] = m.group(0) if m else "NO SUMMARY (build failed?)"
        bad = []
        for f in failed:
            last = f.split()[-1]
            if not any(last in a for a in allowed):
                bad.append(f)
        res["baseline_unexpected_failures"] = sorted(bad)
        res["compiles"] = m is not None
        if not m:
            res["error"] = o[-3000:]
            return res
        # 3. demonstration
        if "--no-demo" in sys.argv:
            res["confirmed_tests_only"] = (res["patch_applies"] and res["compiles"] and not bad)
            return res
        meta = json.load(open(f"{out}/meta.json"))
        demo_cmd = meta.get("demo_cmd_confirm") or meta["demo_cmd"]
        demo_cmd = re.sub(r'CARGO_TARGET_DIR=\S+\s*', '', demo_cmd)
        demo_cmd = re.sub(r'cd\s+/tmp/wt-\S+\s*&&\s*', '', demo_cmd)
        demo_cmd = demo_cmd.replace(f"/tmp/wt-{name}", wt)
        m2 = re.search(r'(cargo test[^#\n]*)', demo_cmd)
        if m2:
            demo_cmd = m2.group(1).strip()
        if os.path.exists(f"{out}/demo.diff"):
            rc, o = sh(f"git apply {out}/demo.diff", cwd=wt)
            if rc != 0:
                res["error"] = "demo.diff does not apply: " + o[-1000:]
                return res
        placed = set()
        for spec in meta.get("demo_files", []) or []:
            m3 = re.match(r'^(\S+)\s+\(copy to (\S+?)\)', str(spec))
            if m3 and os.path.exists(f"{out}/{m3.group(1)}"):
                dst = m3.group(2).replace(f"/tmp/wt-{name}/", "")
                os.makedirs(os.path.dirname(f"{wt}/{dst}"), exist_ok=True)
                shutil.copy(f"{out}/{m3.group(1)}", f"{wt}/{dst}")
                placed.add(m3.group(1))
        for f in os.listdir(out):
            if f in placed:
                continue
            if f.endswith(".rs") and not os.path.exists(f"{wt}/tests/{f}"):
                shutil.copy(f"{out}/{f}", f"{wt}/tests/{f}")
        rc1, o1 = sh(demo_cmd, cwd=wt, env=env, timeout=3600)
        open(f"{out}/confirm_demo_with.log", "w").write(o1)
        res["demo_with_change_rc"] = rc1
        rc, o = sh(f"git apply -R {out}/patch.diff", cwd=wt)
        if rc != 0:
            res["error"] = "cannot revert patch: " + o[-1000:]
            return res
        for _try in range(3):   # port 3000 may be busy with a sibling's test
            rc2, o2 = sh(demo_cmd, cwd=wt, env=env, timeout=3600)
            if rc2 == 0:
                break
            time.sleep(20)
        open(f"{out}/confirm_demo_without.log", "w").write(o2)
        res["demo_without_change_rc"] = rc2
        res["demo_cmd_used"] = demo_cmd
        res["confirmed"] = (res["patch_applies"] and res["compiles"] and not bad
                            and rc1 != 0 and rc2 == 0)
        return res
    finally:
        sh(f"git -C /repo worktree remove --force {wt}")
        sh(f"rm -rf {wt}")
        res["finished"] = time.strftime("%F %T")
        json.dump(res, open(f"{out}/confirm.json", "w"), indent=1)
        print(json.dumps({k: v for k, v in res.items() if k != "error"}))
        if "error" in res:
            print("ERROR:", res["error"][-1500:])

if __name__ == "__main__":
    main()
