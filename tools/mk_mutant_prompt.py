#!/usr/bin/env python3
"""Prints the brief for a seeded-change sub-agent.

usage: mk_mutant_prompt.py <property id> <worktree tag> [focus text]

The brief contains only the property's own text (statement, quantifier, why
the tests cannot settle it, anchors) and the working rules; nothing about the
checks in /verif.  The optional focus text must itself be a quotation of, or
a pointer into, the property statement.
"""
import json
import sys

TEMPLATE = open("/verif/notes/MUTANT_PROMPT.txt").read()


def main():
    pid, tag = sys.argv[1], sys.argv[2]
    focus = sys.argv[3] if len(sys.argv) > 3 else ""
    prop = None
    for line in open("/verif/properties.jsonl"):
        p = json.loads(line)
        if p["id"] == pid:
            prop = p
    a = prop["anchors"]
    files = json.dumps(a)
    text = (TEMPLATE.replace("{ID}", tag)
            .replace("{TITLE}", prop["title"])
            .replace("{STATEMENT}", prop["statement"])
            .replace("{QUANT}", prop["quantifier"]["text"])
            .replace("{WHY}", prop["why_tests_cant"])
            .replace("{FILES}", files))
    text = text.replace(f'property ("{tag}")', f'property ("{pid}")')
    text = text.replace(f"(id {tag}:", f"(id {pid}:")
    if focus:
        text += ("\n\nFocus for this assignment (other people cover other "
                 "clauses of the same property): " + focus + "\n")
    text += ("\nThe base commit of your worktree is /repo's HEAD; record it "
             "in meta.json as base_commit (git -C /repo rev-parse --short "
             "HEAD).\n")
    print(text)


if __name__ == "__main__":
    main()
