#!/bin/bash
# usage: seeded_sweep.sh <listfile>   (lines: "<seeded-id> [check ids...]"), sequential
while read -r line; do
  [ -z "$line" ] && continue
  python3 /verif/tools/run_seeded.py $line >> /verif/.work/seeded_sweep.log 2>&1
done < "$1"
echo SWEEP-DONE >> /verif/.work/seeded_sweep.log
