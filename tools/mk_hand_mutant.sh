#!/bin/bash
# usage: mk_hand_mutant.sh <name> <property> "<summary>" "<needs>"
# saves the uncommitted diff of /tmp/hand as /verif/seeded/<name>/patch.diff and resets /tmp/hand
set -e
d=/verif/seeded/$1
mkdir -p "$d"
git -C /tmp/hand diff > "$d/patch.diff"
test -s "$d/patch.diff" || { echo "empty diff"; exit 1; }
python3 - "$1" "$2" "$3" "$4" <<'PY'
import json,sys,subprocess
name,prop,summary,needs=sys.argv[1:5]
files=subprocess.run("git -C /tmp/hand diff --name-only",shell=True,capture_output=True,text=True).stdout.split()
json.dump({"property":prop,"source":"hand-written (from the must-catch list of the design round)","summary":summary,"needs":needs,"files_changed":files,
 "demonstration":"none separate: the registered check of the property is the demonstration (see results.json); existing tests confirmed by tools/confirm_seeded.py --no-demo"},
 open(f"/verif/seeded/{name}/meta.json","w"),indent=1)
PY
git -C /tmp/hand checkout -- .
wc -l "$d/patch.diff"
