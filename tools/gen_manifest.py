#!/usr/bin/env python3
"""Writes /verif/MANIFEST.json from tools/checks_table.py."""
import json
import subprocess
import sys
sys.path.insert(0, "/verif/tools")
from checks_table import CHECKS  # noqa: E402

props = [json.loads(l)["id"] for l in open("/verif/properties.jsonl")]
try:
    commits = subprocess.run(
        ["git", "-C", "/repo", "log", "--format=%H %s"],
        capture_output=True, text=True).stdout.splitlines()
except Exception:  # noqa: BLE001
    commits = []
hook_commits = [c.split()[0] for c in commits if "verif-hooks:" in c]

NOT_APPLICABLE = {}
try:
    NOT_APPLICABLE = json.load(open("/verif/tools/not_applicable.json"))
except Exception:  # noqa: BLE001
    pass

checks = []
for pid in props:
    if pid not in CHECKS or CHECKS[pid].get("disabled"):
        continue
    c = CHECKS[pid]
    checks.append({
        "property_id": pid,
        "quick_cmd": f"python3 tools/run_check.py {pid} --tier quick",
        "thorough_cmd": f"python3 tools/run_check.py {pid} --tier thorough",
        "evidence_file": f"/verif/evidence/{pid}.json",
        "replay_cmd_template":
            f"/verif/.target/release/{c['bin']} --replay {{path}}",
        "engine": "kvh",
        "level_claimed": {
            "category": c["level"],
            "text": c["level_text"],
            "design_ref": c.get("design_ref", "DESIGN.md"),
        },
        "level_note": c["level_note"],
        "technique": c["technique"],
    })

na = []
for pid in props:
    if pid in CHECKS and not CHECKS[pid].get("disabled"):
        continue
    na.append({
        "property_id": pid,
        "reason": NOT_APPLICABLE.get(
            pid, "not claimed yet: the runtime monitor for this property "
                 "is still under construction in this round"),
    })

manifest = {
    "version": 1,
    "setup_cmd": "python3 tools/setup.py",
    "hooks": {
        "guard": "cargo feature verif-hooks (off by default)",
        "enable": "the harness crate /verif/harness depends on krill by "
                  "path /repo with features = [\"verif-hooks\"]; every "
                  "check command rebuilds it from /repo's working tree",
        "baseline_off_cmd": "cd /repo && cargo test --workspace "
                            "--no-fail-fast --offline",
        "source_commits": hook_commits,
        "add_only": True,
    },
    "engines": [{
        "name": "kvh",
        "path": "/verif/harness",
        "serves_properties": [c["property_id"] for c in checks],
        "kind_free_text": "Rust harness crate (in-process krill worlds, "
                          "scheduler stand-in, relying-party oracle, "
                          "history generator, fault/crash and schedule "
                          "engines) + tools/run_check.py driver that shards "
                          "workers and merges their observations",
    }],
    "checks": checks,
    "not_applicable": na,
    "notes": "Technique family: runtime monitoring and sanitizers. Every "
             "check exits 0 (held on what was explored / only known "
             "findings), 1 (VIOLATION line) or 2 (inconclusive: build "
             "failure, too little observed, worker loss - never a "
             "violation). See DESIGN.md.",
}
json.dump(manifest, open("/verif/MANIFEST.json", "w"), indent=1)
print(f"MANIFEST.json: {len(checks)} checks, {len(na)} not claimed")
