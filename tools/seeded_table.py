#!/usr/bin/env python3
"""Prints the catch matrix of /verif/seeded as a markdown table (for DESIGN.md)."""
import json, os, glob

rows = []
for d in sorted(glob.glob("/verif/seeded/*")):
    sid = os.path.basename(d)
    try:
        meta = json.load(open(f"{d}/meta.json"))
    except Exception:
        continue
    conf = {}
    if os.path.exists(f"{d}/confirm.json"):
        conf = json.load(open(f"{d}/confirm.json"))
    res = []
    if os.path.exists(f"{d}/results.json"):
        res = json.load(open(f"{d}/results.json"))
    if "confirmed" in conf:
        c = "yes" if conf["confirmed"] else "NO"
    elif "confirmed_tests_only" in conf:
        c = "tests only" if conf["confirmed_tests_only"] else "NO (tests)"
    else:
        c = "-"
    # first and latest result per (check, tier)
    def verdict(r, sigs=True):
        if r["exit"] == 1:
            if not sigs:
                return "caught"
            return "CAUGHT (" + "; ".join(s[:60] for s in r["signatures"][:2]) + ")"
        if r["exit"] == 0:
            return "missed"
        return f"inconclusive (exit {r['exit']}, machine overloaded)"
    first, latest = {}, {}
    for r in res:
        k = (r["check"], r["tier"])
        first.setdefault(k, r)
        latest[k] = r
    cells = []
    for k, r in sorted(latest.items()):
        chk, tier = k
        v = verdict(r)
        f = first[k]
        if f is not r and verdict(f, False) != verdict(r, False):
            v = f"first run {verdict(f, False)}; after strengthening {v}"
        cells.append(f"{chk} {tier}: {v}")
    summary = meta.get("summary", "").replace("\n", " ").replace("|", "/")
    if len(summary) > 230:
        summary = summary[:227] + "..."
    rows.append((sid, meta.get("property", "?"), summary, c, "<br>".join(cells)))

print("| seeded change | property | what it does | confirmed | checks run against it |")
print("|---|---|---|---|---|")
for r in rows:
    print("| " + " | ".join(r) + " |")
