#!/usr/bin/env python3
"""Brief for a later-wave seeded-change agent: the property text, the working
rules (notes/MUTANT_PROMPT.txt) and a 'do not repeat' list made of the first
sentences of the summaries of changes already delivered for that property
(descriptions of changes to krill only; nothing about the checks).

usage: mk_wave_prompt.py <property id> <tag>
"""
import glob, json, os, re, subprocess, sys
pid, tag = sys.argv[1], sys.argv[2]
base = subprocess.run(["python3", "/verif/tools/mk_mutant_prompt.py", pid, tag],
                      stdout=subprocess.PIPE, text=True).stdout
seen = []
for d in sorted(glob.glob("/verif/seeded/*/meta.json")):
    try:
        m = json.load(open(d))
    except Exception:
        continue
    if m.get("property") != pid:
        continue
    s = (m.get("summary") or "").strip().replace("\n", " ")
    s = s[:420]
    seen.append("- " + s)
if seen:
    base += ("\nChanges ALREADY delivered by others for this property - do NOT "
             "repeat these or close variants (pick another clause of the "
             "statement, another code path, another kind of trigger):\n"
             + "\n".join(seen) + "\n")
print(base)
