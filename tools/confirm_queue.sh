#!/bin/bash
# sequential confirmation of seeded changes: polls /verif/.work/confirm_queue.txt ("<name> <dir>" per line)
Q=/verif/.work/confirm_queue.txt
D=/verif/.work/confirm_done.txt
touch $Q $D
while true; do
  next=$(grep -vxFf $D $Q | head -1)
  if [ -z "$next" ]; then
    [ -e /verif/.work/confirm_stop ] && exit 0
    sleep 20; continue
  fi
  set -- $next
  python3 /verif/tools/confirm_seeded.py "$1" "$2" --slot ${SLOT:-1} $3 > "/verif/.work/confirm_$(basename $2).log" 2>&1
  echo "$next" >> $D
done
