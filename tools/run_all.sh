#!/bin/bash
# usage: run_all.sh <tier> <seed...>  - runs every registered check, one line per check
tier=$1; shift
for seed in "$@"; do
  for c in C01 C02 C03 C04 C05 C06 C07 C08 C09 C18 C10 C11 C12 C13 C20 C14 C15 C16 C19 C17; do
    out=$(VERIF_SEED=$seed python3 /verif/tools/run_check.py $c --tier $tier 2>&1)
    rc=$?
    echo "seed=$seed $c exit=$rc $(echo "$out" | grep "evaluations=" | tail -1 | cut -c1-120) known=$(echo "$out" | grep -c KNOWN-FINDING) viol=$(echo "$out" | grep -c '^VIOLATION') inc=$(echo "$out" | grep -c '^INCONCLUSIVE')"
    if [ $rc -ne 0 ]; then echo "$out" | grep -E "^VIOLATION|signature:|^INCONCLUSIVE" | head -8 | cut -c1-300; fi
  done
done
echo ALL-DONE
