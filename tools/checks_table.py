"""Per-check configuration for tools/run_check.py.

For each property: the worker binary, the level claimed, shard counts and
per-worker time budgets per tier, the rule that makes a case count as
distinct and non-trivial, and the assumptions written into the evidence.
"""

COMMON_ASSUMPTIONS = [
    "executions are produced by the harness' seeded generators and boundary "
    "scripts; nothing is claimed about paths the workload did not drive",
    "krill is driven in-process through the same manager objects the HTTP "
    "handlers use (feature verif-hooks on); remote HTTPS parents/"
    "repositories and HSM signers are not exercised",
]

RP_ASSUMPTION = (
    "the relying-party oracle trusts rpki-rs decoding/validation and ring "
    "signature checks; a symmetric encode/decode bug in rpki-rs is invisible"
)

CHECKS = {
    "C01": {
        "bin": "c01",
        "level": "exploration",
        "quick": {"shards": 12, "budget_s": 75, "min_evaluations": 40},
        "thorough": {"shards": 14, "budget_s": 1100, "min_evaluations": 400},
        "rule": (
            "evaluations = relying-party walks + exactness comparisons made "
            "at caught-up points of generated histories (4 boundary scripts: "
            "aggregation threshold crossing, shrink/partial/nothing/regain, "
            "two parents holding one prefix, key roll interleaved with "
            "content changes; plus seeded random histories over ROA/ASPA/"
            "BGPsec deltas, child add/update/suspend/remove, parents added/"
            "removed, CA deletion, rolls, republish/renew, syncs, partial "
            "pumps; aggregation thresholds (3,2),(1,1),(2,2),(100,90); RRDP "
            "interval 0/1 s; disk/memory storage; depth 3/4). A case is "
            "distinct and non-trivial when the repository state (hash of the "
            "sorted uri/hash list) contains at least one validated payload "
            "and differs from the previous observation of that history."
        ),
        "assumptions": COMMON_ASSUMPTIONS + [RP_ASSUMPTION],
        "level_text": (
            "Runtime monitoring: the real krill code runs generated and "
            "boundary histories in-process; after background work has "
            "caught up an independent relying-party walk validates "
            "everything the publication server holds and the validated "
            "VRP/ASPA/router-key sets are compared for equality with the "
            "configured-and-covered ones; objects the API reports must be in "
            "the repository. Held on the executions listed in the evidence, "
            "not proved."
        ),
        "level_note": (
            "Trusted: rpki-rs decoders/validation + ring; the harness' "
            "scheduler stand-in completes tasks exactly as scheduler::run "
            "does; local parents/repository only."
        ),
        "technique": "runtime monitoring: RP-walk oracle + exactness "
                     "comparison over seeded operation histories",
        "design_ref": "DESIGN.md section 3, C01",
    },
    "C02": {
        "bin": "c02",
        "level": "exploration",
        "quick": {"shards": 12, "budget_s": 75, "min_evaluations": 200},
        "thorough": {"shards": 14, "budget_s": 900, "min_evaluations": 2000},
        "rule": (
            "evaluations = issuer publications observed (every repo-sync "
            "task of every CA, each checked for containment of every "
            "published child certificate in the certificate the issuer "
            "holds for the issuing key, and for replacement of each "
            "affected child certificate in the first publication after the "
            "issuer's certificate shrank) + convergence checks per "
            "(child, parent) at caught-up points (exact per-class resources "
            "= entitlement intersected with the issuer's class, one "
            "published certificate per active key, no open requests) + "
            "idempotence checks (one more sync round must not add commands "
            "or change repository bytes). Histories: 5 boundary scripts "
            "(suspend/unsuspend then issuer shrink; shrink to partial/"
            "nothing/regain; grow at two levels; two-parent child; mapped "
            "class name) + random entitlement histories on a 4-level chain "
            "and on the two-parent forest. distinct_nontrivial counts "
            "distinct (issuer resources, entitlement, certificate "
            "resources) triples at issuer shrinks and distinct (parent, "
            "entitlement, held classes) triples at convergence."
        ),
        "assumptions": COMMON_ASSUMPTIONS + [
            "requested resource limits are not exercised by local "
            "children (krill's own child never sends a limit); limits are "
            "covered only by the harness-played remote child in C12",
            "the TA's children keep strict subsets of all resources "
            "(krill deliberately re-requests for an all-resources child)",
        ],
        "level_text": (
            "Runtime monitoring of every issuer publication and every "
            "caught-up point in generated entitlement histories; the "
            "oracle recomputes the expected certificate resources from "
            "entitlements and the certificates issuers hold, decodes what "
            "the publication server holds and compares. Bounded progress "
            "restatement of 'a bounded number of synchronisations': at most "
            "10 rounds of every-CA-calls-its-parents."
        ),
        "level_note": (
            "Trusted: rpki-rs certificate decoding, the API views of "
            "entitlements/held certificates (they are the configuration "
            "and the CA's own belief, which is what the property relates "
            "the published certificates to)."
        ),
        "technique": "runtime monitoring: per-publication containment/"
                     "replacement monitor + convergence and idempotence "
                     "oracle over entitlement histories",
        "design_ref": "DESIGN.md section 3, C02",
    },
    "C03": {
        "bin": "c03",
        "level": "exploration",
        "quick": {"shards": 12, "budget_s": 75, "min_evaluations": 300},
        "thorough": {"shards": 14, "budget_s": 900, "min_evaluations": 3000},
        "rule": (
            "evaluations = observations (RP walk after every operation + "
            "queue quiescence) at which the cumulative ledger of every "
            "(issuer key, serial, uri, hash, notAfter, kind) ever seen is "
            "re-classified: an entry that is no longer listed by its "
            "issuer's manifest must be absent from the repository and, "
            "while its issuing key still publishes a CRL and it is "
            "unexpired, on that CRL; at caught-up points every published "
            "CA certificate must be for a key its holder still has "
            "(acknowledged revocations took effect). Histories: 4 boundary "
            "scripts (mapped class name + child key roll; objects replaced "
            "several times incl. aggregated ROAs and ASPAs; suspend, "
            "resource loss, deletion of a CA with children; removal of one "
            "of two parents, router keys, child removal) + random histories "
            "weighted towards removals, rolls, renewals. distinct_nontrivial "
            "= distinct (kind of superseded object, operation kind after "
            "which it was first found superseded and on the CRL) pairs; "
            "the counters give the number of superseded entries found on "
            "CRLs."
        ),
        "assumptions": COMMON_ASSUMPTIONS + [RP_ASSUMPTION, 
            "objects are only compared while their issuing key still has a "
            "valid publication point; expired objects are not produced "
            "(no clock shift in this check)"],
        "level_text": (
            "Runtime monitoring with a cumulative ledger: every object the "
            "relying-party walk ever saw is followed for the rest of the "
            "history; once it stops being current it must be withdrawn "
            "after the next synchronisation and stay on its issuer's CRL. "
            "The oracle reads manifests/CRLs itself; CRL membership is "
            "checked at every later observation, not only at the step of "
            "replacement."
        ),
        "level_note": (
            "Trusted: rpki-rs decoding of manifests, CRLs, certificates and "
            "signed objects; 'current' is defined by the issuer's manifest "
            "listing the same uri+hash."
        ),
        "technique": "runtime monitoring: cumulative serial ledger vs CRLs "
                     "and manifests over revocation-heavy histories",
        "design_ref": "DESIGN.md section 3, C03",
    },
    "C09": {
        "bin": "c09",
        "level": "fault_enumeration",
        "quick": {"shards": 10, "budget_s": 60, "min_evaluations": 2000},
        "thorough": {"shards": 14, "budget_s": 600, "min_evaluations": 50000},
        "rule": (
            "Part A: seeded sequences (5-40 steps) of schedule (all five "
            "modes, explicit/implicit times around now), claim, finish, "
            "reschedule, clock advance and restart on the real Queue/"
            "TaskQueue (disk and memory back-ends), each step judged "
            "against the semantics the property states (claim returns a due "
            "task no later than any other due task and never misses one; "
            "the 'soonest' modes and reschedule keep the earlier time; "
            "if-missing respects pending and running; a restart returns "
            "every running task name to pending). Part C (crash points): a "
            "world is stopped with k in {0,1,2,3,5} claimed, unfinished "
            "tasks (one k per shard) incl. the follow-up of a committed ROA "
            "change, restarted, and must re-run each of them, schedule every "
            "recurring task again and publish the change. Part B: after "
            "every operation of random histories and queue quiescence "
            "(no manual sync rounds): no open request, RRDP snapshot on "
            "disk = server content, old key revoked after activation, "
            "API-reported objects in the repository. evaluations = steps "
            "judged + restart/recurring checks + follow-up checks; "
            "distinct_nontrivial = distinct (step kind, mode, #pending, "
            "#running of that name / #due, ties / restart k) situations "
            "and (operation kind, outcome) follow-up situations."
        ),
        "assumptions": COMMON_ASSUMPTIONS + [
            "'eventually executed' is restated as bounded progress: the "
            "queue becomes idle within 400 tasks / 90 virtual seconds and "
            "the effect is visible then",
            "a crash is modelled as dropping the instance between two task "
            "claims/completions; cuts inside a task's own writes are C08's",
            "duplicate entries of one task name (a task scheduled again "
            "while running and then rescheduled) are tolerated: the "
            "property does not forbid them",
        ],
        "level_text": (
            "Runtime monitoring with a step-wise oracle on the real queue "
            "code plus enumerated restart situations (every k in the set, "
            "both back-ends for the queue level) and follow-up monitors on "
            "full histories. Crash points enumerated: k running tasks at "
            "restart for k in {0,1,2,3,5}; the deeper cut enumeration "
            "inside operations is C08."
        ),
        "level_note": (
            "Trusted: the harness reads the queue's key-value entries "
            "through its own KeyValueStore handle; virtual time through "
            "the verif-hooks queue clock offset."
        ),
        "technique": "runtime monitoring: step-wise reference semantics on "
                     "the real queue + enumerated restarts + follow-up "
                     "monitors",
        "design_ref": "DESIGN.md section 4, C09",
    },
}
