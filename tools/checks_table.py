"""Per-check configuration for tools/run_check.py.

For each property: the worker binary, the level claimed, shard counts and
per-worker time budgets per tier, the rule that makes a case count as
distinct and non-trivial, and the assumptions written into the evidence.
"""

COMMON_ASSUMPTIONS = [
    "executions are produced by the harness' seeded generators and boundary "
    "scripts; nothing is claimed about paths the workload did not drive",
    "krill is driven in-process through the same manager objects the HTTP "
    "handlers use (feature verif-hooks on); remote HTTPS parents/"
    "repositories and HSM signers are not exercised",
]

RP_ASSUMPTION = (
    "the relying-party oracle trusts rpki-rs decoding/validation and ring "
    "signature checks; a symmetric encode/decode bug in rpki-rs is invisible"
)

CHECKS = {
    "C01": {
        "bin": "c01",
        "level": "exploration",
        "quick": {"shards": 12, "budget_s": 75, "min_evaluations": 40},
        "thorough": {"shards": 14, "budget_s": 1100, "min_evaluations": 400},
        "rule": (
            "evaluations = relying-party walks + exactness comparisons made "
            "at caught-up points of generated histories (4 boundary scripts: "
            "aggregation threshold crossing, shrink/partial/nothing/regain, "
            "two parents holding one prefix, key roll interleaved with "
            "content changes; plus seeded random histories over ROA/ASPA/"
            "BGPsec deltas, child add/update/suspend/remove, parents added/"
            "removed, CA deletion, rolls, republish/renew, syncs, partial "
            "pumps; aggregation thresholds (3,2),(1,1),(2,2),(100,90); RRDP "
            "interval 0/1 s; disk/memory storage; depth 3/4). A case is "
            "distinct and non-trivial when the repository state (hash of the "
            "sorted uri/hash list) contains at least one validated payload "
            "and differs from the previous observation of that history."
            " Round d: a sixth boundary script runs the key-roll script "
            "with ROAs in aggregated mode (thresholds 1/1). "
        ),
        "assumptions": COMMON_ASSUMPTIONS + [RP_ASSUMPTION],
        "level_text": (
            "Runtime monitoring: the real krill code runs generated and "
            "boundary histories in-process; after background work has "
            "caught up an independent relying-party walk validates "
            "everything the publication server holds and the validated "
            "VRP/ASPA/router-key sets are compared for equality with the "
            "configured-and-covered ones; objects the API reports must be in "
            "the repository. Held on the executions listed in the evidence, "
            "not proved."
        ),
        "level_note": (
            "Trusted: rpki-rs decoders/validation + ring; the harness' "
            "scheduler stand-in completes tasks exactly as scheduler::run "
            "does; local parents/repository only."
        ),
        "technique": "runtime monitoring: RP-walk oracle + exactness "
                     "comparison over seeded operation histories",
        "design_ref": "DESIGN.md section 3, C01",
    },
    "C02": {
        "bin": "c02",
        "level": "exploration",
        "quick": {"shards": 12, "budget_s": 75, "min_evaluations": 200},
        "thorough": {"shards": 14, "budget_s": 900, "min_evaluations": 2000},
        "rule": (
            "evaluations = certificates judged at the instant of issuance "
            "(after every API call and every single background task the "
            "issuers' own object stores are read: a child certificate that "
            "appeared in that one step must carry exactly entitlement x "
            "issuing key's resources, before- or after-values of that step; "
            "when the issuing key's certificate changed in that step also "
            "'the part the replaced certificate and the issuer both still "
            "hold') + issuer publications observed (every repo-sync "
            "task of every CA, each checked for containment of every "
            "published child certificate in the certificate the issuer "
            "holds for the issuing key, and for replacement of each "
            "affected child certificate in the first publication after the "
            "issuer's certificate shrank) + convergence checks per "
            "(child, parent) at caught-up points (exact per-class resources "
            "= entitlement intersected with the issuer's class, one "
            "published certificate per active key, no open requests) + "
            "idempotence checks (one more sync round must not add commands "
            "or change repository bytes). Histories: 5 boundary scripts "
            "(suspend/unsuspend then issuer shrink; shrink to partial/"
            "nothing/regain; grow at two levels; two-parent child; mapped "
            "class name) + random entitlement histories on a 4-level chain "
            "and on the two-parent forest. distinct_nontrivial counts "
            "distinct (issuer resources, entitlement, certificate "
            "resources) triples at issuer shrinks and distinct (parent, "
            "entitlement, held classes) triples at convergence."
            " Round d: three more boundary scripts - the issuer loses part "
            "(or all) of what the child is entitled to and regains it "
            "before the child synchronises again (convergence rounds "
            "withheld until the end of the script), and the issuer shrinks "
            "while in the staging / old-key stage of its own key roll. "
        ),
        "assumptions": COMMON_ASSUMPTIONS + [
            "requested resource limits are not exercised by local "
            "children (krill's own child never sends a limit); limits are "
            "covered only by the harness-played remote child in C12",
            "the TA's children keep strict subsets of all resources "
            "(krill deliberately re-requests for an all-resources child)",
        ],
        "level_text": (
            "Runtime monitoring of every issuer publication and every "
            "caught-up point in generated entitlement histories; the "
            "oracle recomputes the expected certificate resources from "
            "entitlements and the certificates issuers hold, decodes what "
            "the publication server holds and compares. Bounded progress "
            "restatement of 'a bounded number of synchronisations': at most "
            "10 rounds of every-CA-calls-its-parents."
        ),
        "level_note": (
            "Trusted: rpki-rs certificate decoding, the API views of "
            "entitlements/held certificates (they are the configuration "
            "and the CA's own belief, which is what the property relates "
            "the published certificates to)."
        ),
        "technique": "runtime monitoring: per-publication containment/"
                     "replacement monitor + convergence and idempotence "
                     "oracle over entitlement histories",
        "design_ref": "DESIGN.md section 3, C02",
    },
    "C03": {
        "bin": "c03",
        "level": "exploration",
        "quick": {"shards": 12, "budget_s": 75, "min_evaluations": 100},
        "thorough": {"shards": 14, "budget_s": 900, "min_evaluations": 3000},
        "rule": (
            "evaluations = observations (RP walk after every repository "
            "synchronisation task and after every operation + "
            "queue quiescence) at which the cumulative ledger of every "
            "(issuer key, serial, uri, hash, notAfter, kind) ever seen is "
            "re-classified: an entry that is no longer listed by its "
            "issuer's manifest must be absent from the repository and, "
            "while its issuing key still publishes a CRL and it is "
            "unexpired, on that CRL; at caught-up points every published "
            "CA certificate must be for a key its holder still has "
            "(acknowledged revocations took effect). Histories: 4 boundary "
            "scripts (mapped class name + child key roll; objects replaced "
            "several times incl. aggregated ROAs and ASPAs; suspend, "
            "resource loss, deletion of a CA with children; removal of one "
            "of two parents, router keys, child removal) + random histories "
            "weighted towards removals, rolls, renewals. distinct_nontrivial "
            "= distinct (kind of superseded object, operation kind after "
            "which it was first found superseded and on the CRL) pairs; "
            "the counters give the number of superseded entries found on "
            "CRLs."
            " Wave 5: two more boundary scripts (this check's random moves "
            "were withdrawn, DESIGN section 10) move "
            "a CA to a SECOND publication server (another krill instance "
            "reached through the in-process transport hook H7) and back - a "
            "key roll whose keys publish at different servers - incl. the "
            "loss of the parent while both publication points are in use; "
            "at caught-up points (a) no object the ledger saw under a key "
            "its owner has dropped since may still be served by either "
            "server, reachable from the trust anchor or not, and (b) "
            "nothing is validated that is no longer configured."
        ),
        "assumptions": COMMON_ASSUMPTIONS + [RP_ASSUMPTION, 
            "objects are only compared while their issuing key still has a "
            "valid publication point; expired objects are not produced "
            "(no clock shift in this check)"],
        "level_text": (
            "Runtime monitoring with a cumulative ledger: every object the "
            "relying-party walk ever saw is followed for the rest of the "
            "history; once it stops being current it must be withdrawn "
            "after the next synchronisation and stay on its issuer's CRL. "
            "The oracle reads manifests/CRLs itself; CRL membership is "
            "checked at every later observation, not only at the step of "
            "replacement."
        ),
        "level_note": (
            "Trusted: rpki-rs decoding of manifests, CRLs, certificates and "
            "signed objects; 'current' is defined by the issuer's manifest "
            "listing the same uri+hash."
        ),
        "technique": "runtime monitoring: cumulative serial ledger vs CRLs "
                     "and manifests over revocation-heavy histories",
        "design_ref": "DESIGN.md section 3, C03",
    },
    "C09": {
        "bin": "c09",
        "level": "fault_enumeration",
        "quick": {"shards": 10, "budget_s": 60, "min_evaluations": 2000},
        "thorough": {"shards": 14, "budget_s": 600, "min_evaluations": 50000},
        "san_stages": [
            {"kind": "miri", "tiers": ["thorough"], "shards": 8,
             "budget_s": 180, "mix": "queue"},
        ],
        "rule": (
            "Part A: seeded sequences (5-40 steps) of schedule (all five "
            "modes, explicit/implicit times around now), claim, finish, "
            "reschedule, clock advance and restart on the real Queue/"
            "TaskQueue (disk and memory back-ends), each step judged "
            "against the semantics the property states (claim returns a due "
            "task no later than any other due task and never misses one; "
            "the 'soonest' modes and reschedule keep the earlier time; "
            "if-missing respects pending and running; a restart returns "
            "every running task name to pending). Part C (crash points): a "
            "world is stopped with k in {0,1,2,3,5} claimed, unfinished "
            "tasks (one k per shard) incl. the follow-up of a committed ROA "
            "change, restarted, and must re-run each of them, schedule every "
            "recurring task again and publish the change. Part D (real "
            "start-up path): the directory of a daemon killed with k "
            "running tasks - on odd shards with the start task itself "
            "among them - is started through the REAL "
            "StartupManager::run_scheduler and the real scheduler thread; "
            "once the queue is idle nothing from before the kill may be left "
            "in 'running', every recurring task must be scheduled and the "
            "committed change published. "
            "Part B: after "
            "every operation of random histories and queue quiescence "
            "(no manual sync rounds): no open request, RRDP snapshot on "
            "disk = server content, old key revoked after activation, "
            "API-reported objects in the repository. evaluations = steps "
            "judged + restart/recurring checks + follow-up checks; "
            "distinct_nontrivial = distinct (step kind, mode, #pending, "
            "#running of that name / #due, ties / restart k) situations "
            "and (operation kind, outcome) follow-up situations."
            " Round e: the restart cases also run on an instance with more "
            "than five CAs and with the queue state a crash inside the "
            "completion of a parent synchronisation leaves behind (no entry "
            "at all for that task): start-up must schedule the refresh "
            "again. "
            "Part E (overlap): a change is committed by another request "
            "while the task its follow-up shares a queue name with is being "
            "executed - before the task's work, or between its work and the "
            "scheduler's completion call: a remote publisher publishes or "
            "withdraws while update_rrdp_if_needed runs, a ROA change while "
            "the CA's repository synchronisation runs, the parent changes "
            "the entitlement or the CA starts a key roll while its parent "
            "synchronisation runs (10 cases; 2 per shard in quick, all in "
            "thorough). The queue alone must then make the change visible "
            "(RRDP snapshot = server content, no open request, objects in "
            "the repository, exact tree, grown entitlement picked up, new "
            "key certified). "
        ),
        "assumptions": COMMON_ASSUMPTIONS + [
            "'eventually executed' is restated as bounded progress: the "
            "queue becomes idle within 400 tasks / 90 virtual seconds and "
            "the effect is visible then",
            "a crash is modelled as dropping the instance between two task "
            "claims/completions; cuts inside a task's own writes are C08's",
            "Part C restarts through the harness' stand-in (the same two "
            "calls run_scheduler makes), Part D through krill's own "
            "start-up code; its verdict is taken on the queue's state "
            "(idle, yet a stale running entry or a missing recurring task), "
            "a scheduler still busy after 60 s of watching is inconclusive",
            "duplicate entries of one task name (a task scheduled again "
            "while running and then rescheduled) are tolerated: the "
            "property does not forbid them",
        ],
        "level_text": (
            "Runtime monitoring with a step-wise oracle on the real queue "
            "code plus enumerated restart situations (every k in the set, "
            "both back-ends for the queue level) and follow-up monitors on "
            "full histories. Crash points enumerated: k running tasks at "
            "restart for k in {0,1,2,3,5}; the deeper cut enumeration "
            "inside operations is C08."
        ),
        "level_note": (
            "Trusted: the harness reads the queue's key-value entries "
            "through its own KeyValueStore handle; virtual time through "
            "the verif-hooks queue clock offset."
        ),
        "technique": "runtime monitoring: step-wise reference semantics on "
                     "the real queue + enumerated restarts + follow-up "
                     "monitors; thorough tier adds a Miri stage on the "
                     "multi-threaded queue",
        "design_ref": "DESIGN.md section 4, C09",
    },
    "C05": {
        "bin": "c05",
        "level": "exploration",
        "quick": {"shards": 12, "budget_s": 70, "min_evaluations": 1000},
        "thorough": {"shards": 14, "budget_s": 900, "min_evaluations": 30000},
        "rule": (
            "evaluations = requests sent to the subject CA and judged: the "
            "verdict (accepted/refused) must equal a predicate written from "
            "the statement (own prefix arithmetic, own model of configured "
            "ROAs/ASPAs/router keys/children; removals first; implicit max "
            "length = prefix length; same authorisation with the same "
            "comment is a duplicate, with another comment a comment change; "
            "also against earlier entries of the same delta); after a "
            "refusal the digest of CA info, configured ROAs/ASPAs/BGPsec, "
            "all published files, the pending task list and the children "
            "view must be unchanged and only the subject CA's version may "
            "grow, by one; after an acceptance the configuration view must "
            "equal the predicted one and every accepted ROA whose prefix one "
            "class holds must be carried by an object. State classes: no "
            "certificate yet, one class, two classes (overlapping, disjoint "
            "and a prefix only the union holds), after an entitlement "
            "shrink, during a key roll (pending/new/old key). Each world "
            "runs a boundary script (every clause alone, accepted "
            "counterparts, mixed good+bad requests) and then seeded random "
            "requests: ROA deltas (implicit/explicit/invalid max length, "
            "v4/v6, AS0, other-family twin, covering prefix, duplicates "
            "inside a delta, removal+re-add, comment-only changes), ASPA "
            "definition and provider updates, BGPsec updates with several "
            "entries and corrupted CSRs, child add/update/remove. "
            "distinct_nontrivial = distinct (state class, operation type, "
            "set of violated clauses or 'none')."
            " Round d: definitions that are already configured (router keys "
            "of the preset) are re-submitted in every state class - refused "
            "exactly when their AS is no longer held. "
        ),
        "assumptions": COMMON_ASSUMPTIONS + [
            "requests enter at CaManager; JSON/HTTP parsing in front of it "
            "is not exercised here (C16)",
            "where the statement is silent no verdict is asserted: a "
            "provider update that changes nothing but keeps an unbacked "
            "definition, update of an unknown child, which of two "
            "definitions for one customer in one request wins",
            "CSR validity is judged with openssl, resource containment "
            "with the harness' own integer arithmetic",
        ],
        "level_text": (
            "Runtime monitoring, differential: the real command processing "
            "runs on generated requests in five classes of CA state and "
            "its accept/refuse decision is compared with a predicate "
            "derived from the statement; refusals are checked to leave "
            "configuration, repository and task queue untouched, "
            "acceptances to be visible entirely."
        ),
        "level_note": (
            "Trusted: rpki-rs ResourceSet::contains for comparing child "
            "resource sets, openssl for CSR validity; the state digest is "
            "the API-observable state, not raw storage."
        ),
        "technique": "runtime monitoring: differential accept/refuse "
                     "oracle + untouched-state and full-visibility checks "
                     "over seeded requests in constructed CA states",
        "design_ref": "DESIGN.md section 3, C05",
    },
    "C10": {
        "bin": "c10",
        "level": "exploration",
        "quick": {"shards": 12, "budget_s": 60, "min_evaluations": 5000},
        "thorough": {"shards": 14, "budget_s": 900, "min_evaluations": 100000},
        "rule": (
            "evaluations = publication-server requests judged against the "
            "sequential reference model (delta / add publisher / remove "
            "publisher / signed list query; predicted verdict vs krill's, "
            "then list reply + publisher details of EVERY publisher vs the "
            "model; after every RRDP update and session reset the snapshot "
            "on disk and the rsync tree vs the union of the model). A case "
            "is distinct and non-trivial by the key (delta shape P#U#W#, "
            "predicted verdict incl. reason, flavour and position "
            "first/middle/last/only of the first unacceptable element, "
            "whether a touched URI has staged changes / is visible in RRDP); "
            "add/remove/list requests by (expected verdict, re-addition, "
            "object count, staged). Workload: 3-5 publishers from a, ab, a-b, "
            "A, a/b, a_b, aa, b, a/b/c, AB; all 27 three-step (thorough: 81 "
            "four-step) publish/update/withdraw sequences on one URI between "
            "two RRDP updates from absent and published starts; bad-element "
            "matrix (9 kinds x sizes 1..6 x first/middle/last); random "
            "histories with look-alike URIs, interleaved RRDP updates, "
            "session resets, removal/re-addition, ~1% of requests through "
            "the signed rfc8181 entry; RRDP interval 0/1 s, disk/memory "
            "storage, with/without embedded TA."
        ),
        "assumptions": COMMON_ASSUMPTIONS + [
            "requests are issued sequentially from one thread (concurrent "
            "publishers are C18's subject); RRDP updates happen where the "
            "history calls update_rrdp_if_needed",
            "URIs with dot or empty segments cannot be expressed (rpki-rs "
            "refuses them when a message is decoded) and are only counted; "
            "module-name case variants are not generated",
            "RRDP delta files are not checked here (C11); the snapshot and "
            "the rsync tree are",
        ],
        "level_text": (
            "Runtime monitoring: the real RepositoryManager runs generated "
            "and hostile publication histories in-process; an independent "
            "string-level model predicts every verdict and the complete "
            "content of every publisher, compared after every request, and "
            "the RRDP snapshot/rsync tree after every update."
        ),
        "level_note": (
            "Trusted: rpki-rs XML/CMS parsing of replies and RRDP files; "
            "sha256 from openssl; sequential requests only."
        ),
        "technique": "runtime monitoring: sequential reference model of the "
                     "publication server + per-request comparison of every "
                     "publisher and of the RRDP snapshot",
        "design_ref": "DESIGN.md section 5, C10",
    },
    "C11": {
        "bin": "c11",
        "level": "fault_enumeration",
        "quick": {"shards": 10, "budget_s": 60, "min_evaluations": 600},
        "thorough": {"shards": 15, "budget_s": 900, "min_evaluations": 20000},
        "rule": (
            "Publication histories (10-22 steps quick, 30-120 thorough; "
            "publish/update/withdraw deltas of 8 B-12 kB objects from 2-3 "
            "publishers, two publishes per update, updates with nothing "
            "staged, session resets) under 5 retention configurations "
            "(min_nr,max_nr,min_s,max_s,interval,archive). After every "
            "update an RRDP client simulator that remembers the content it "
            "had at EVERY serial it ever fetched re-reads notification, "
            "snapshot and deltas from disk: hashes, snapshot = publication "
            "state at its serial, every contiguous chain from every held "
            "serial reaches the snapshot, serial +1, session only changes "
            "on reset (then serial 1, no deltas), deltas contiguous, ending "
            "at the serial and <= max_nr, rsync tree = snapshot. Fault "
            "enumeration: for the last update of every history EVERY "
            "key-value and file-system mutation of the update is a cut; at "
            "each cut (a) the on-disk view is handed to the client "
            "simulator, (b) crash realisation: restore the cut, restart, "
            "publish and update once more - must succeed and be consistent, "
            "nothing acknowledged lost, (c) failing-write realisation: the "
            "n-th mutation returns an I/O error on a running instance, then "
            "the same. evaluations = client checks + cut views + "
            "continuations; distinct_nontrivial = distinct (retention, "
            "#deltas offered, #serials held) views and distinct (retention, "
            "cut label) cuts."
            " Round d: the operation whose mutations are cut rotates "
            "between an update, an explicit session reset and the snapshot "
            "job on the content log; a serial a client has seen never comes "
            "back; after a crash the server must not load behind the serial "
            "it has served. "
            " Wave 5: on every second cut, after the crash or failed "
            "write, the repository is first written again on request "
            "(RepositoryManager::write_repository): that write must succeed "
            "and leave the rsync tree equal to the snapshot. Cuts that "
            "create a file are additionally realised as TORN writes: the "
            "failing (or crashing) creation leaves an empty file behind."
        ),
        "assumptions": COMMON_ASSUMPTIONS + [
            "a crash loses everything after a mutation boundary; torn "
            "writes inside one write(2)/rename and page-cache reordering "
            "are not modelled",
            "the maximum number of deltas is asserted only for "
            "configurations with min_nr <= max_nr and "
            "rrdp_delta_files_min_seconds = 0 (otherwise the settings "
            "contradict each other)",
            "size-based truncation (deltas never larger than the snapshot) "
            "is exercised by the object sizes but not asserted separately",
        ],
        "level_text": (
            "Runtime monitoring with complete cut enumeration per update: "
            "the real RRDP/rsync writer runs under the mutation hook; a "
            "client simulator with memory of all earlier serials judges "
            "the files on disk after every update and at every cut, and "
            "both realisations of every cut must be followed by a "
            "successful, consistent update."
        ),
        "level_note": (
            "Trusted: rpki-rs RRDP parsers; the harness' model of "
            "publisher content (the harness is the only publisher); TA "
            "objects are treated as constant base content."
        ),
        "technique": "runtime monitoring: RRDP client simulator + enumerated "
                     "crash/failed-write cuts of the repository writer",
        "design_ref": "DESIGN.md section 5, C11",
    },
    "C17": {
        "bin": "c17",
        "level": "exploration",
        "quick": {"shards": 12, "budget_s": 45, "min_evaluations": 5000},
        "thorough": {"shards": 14, "budget_s": 600, "min_evaluations": 100000},
        "args": {"quick": {"as0-origin": 0}, "thorough": {"as0-origin": 0}},
        "rule": (
            "evaluations = generated (announcements, configured ROAs, held "
            "resources, optional scope) quadruples whose analyse + suggest "
            "reports were compared entry by entry with a brute-force RFC 6811 "
            "validator (counters: announcement_entries_compared, "
            "roa_entries_compared, suggestion_list_checks, "
            "suggestion_removal_checks, suggestion_valid_preservation_checks). "
            "Announcements are loaded through gzipped RISwhois dumps served "
            "from a loopback HTTP listener into a fresh BgpAnalyser per case "
            "(real download, gunzip, parser, tree builder). A case class is "
            "distinct and non-trivial per announcement as (family, RFC 6811 "
            "state, number of covering ROAs 0/1/2/3+, AS0 among the covering "
            "ROAs, a ROA with the equal prefix exists, scope given) and per "
            "ROA as (family, reported category, size of authorised set "
            "0/1/2/3+, size of disallowed set 0/1/2/3+)."
        ),
        "assumptions": COMMON_ASSUMPTIONS + [
            "announcements with origin AS0 are not generated: the statement "
            "calls an announcement valid when a covering ROA has the same "
            "origin, which for the (non-existent in BGP) origin 0 is what "
            "krill reports; demanding 'never valid' there would be more "
            "than the property states",
            "held resources and scope are canonical resource sets; ROAs "
            "whose held/scope membership depends on rpki-rs' family-blind "
            "ResourceSet::contains_roa_address are kept out",
            "with a scope, the configured ROAs are those contained in the "
            "scope (analyse's documented meaning)",
            "'suggestions never propose removing a ROA that validates an "
            "announcement' is read as: after applying the suggestion every "
            "previously valid announcement is still valid, and ROAs listed "
            "as stale/redundant validate nothing",
        ],
        "level_text": (
            "Runtime monitoring (differential): the real RISwhois loader, "
            "prefix tree and BgpAnalyser::analyse/suggest run on seeded "
            "collision-heavy inputs; every report entry, every per-ROA "
            "authorises/disallows list and the effect of applying the "
            "suggestion are compared with a brute-force RFC 6811 validator "
            "working on its own integer prefix model."
        ),
        "level_note": (
            "Trusted: Display/FromStr of krill's prefix, payload and "
            "announcement types and rpki-rs ResourceSet parsing (texts are "
            "the interface between krill and the oracle); the harness' "
            "loopback HTTP server and stored-block gzip writer."
        ),
        "technique": "runtime monitoring: differential check of the BGP "
                     "analyser against a brute-force RFC 6811 validator",
        "design_ref": "DESIGN.md section 7, C17",
    },
    "C13": {
        "bin": "c13",
        "level": "exploration",
        "quick": {"shards": 12, "budget_s": 85, "min_evaluations": 10000},
        "thorough": {"shards": 12, "budget_s": 600, "min_evaluations": 300000},
        "rule": (
            "evaluations = requests judged (route x user x CA family x "
            "transport) + login attempts. 111 routes written from "
            "dispatch/*.rs; per pass 120-158 users: admin token, no/wrong/"
            "Basic-only credentials, built-in roles, config globs, "
            "all-but-P and login+P for each of the 22 permissions with and "
            "without cas=[..] scoping, two roles scoped to NO CA "
            "(cas = []), seeded random subsets and scopes, "
            "Role::complex roles (per-CA grant over blanket grant), the "
            "Unix-socket peer mapped to all-but-login; testbed mode on/off "
            "alternating over shards and passes; TCP and Unix socket. A case "
            "is distinct and non-trivial = a (route, required permission "
            "set) pair for which the set inferred from the users served "
            "equals the table and at least one role-bearing user was served "
            "and one refused (plus POST /auth/login requires login)."
            " Round d: both leaf CAs of the world have an open issue (their "
            "parent forgot them), so that the issues listing has entries to "
            "filter. "
        ),
        "assumptions": [
            "executions are produced by the harness' seeded generators; "
            "nothing is claimed about routes, methods or path spellings not "
            "in the 111-entry table",
            "the real daemon (start_krill_daemon, feature verif-hooks on) "
            "runs on a data directory populated in-process beforehand; "
            "config-file auth provider only (OpenID Connect not exercised); "
            "complex and built-in roles are installed programmatically",
            "permitted requests are sent in an inert form (junk/broken "
            "body), so 'permitted' means 'not answered 401/403', not "
            "'operation succeeded'; refused requests are sent in their "
            "effective form and 'no effect' means no change of the files "
            "under data/ and repo/ (task queue, status, sessions excluded)",
        ],
        "level_text": (
            "Runtime monitoring: the real daemon answers every table route "
            "for every user of a generated role lattice; an independent "
            "model of role evaluation says which answers must be 401/403, "
            "refused requests must leave stored state unchanged, listings "
            "must show exactly the readable CAs, and the set of users "
            "served must identify the table's permission set."
        ),
        "level_note": (
            "Trusted: the hand-written route table as golden reference "
            "(cross-checked once against the tree), the harness' HTTP "
            "client, file-level state digest."
        ),
        "technique": "runtime monitoring: real daemon + route table x role "
                     "lattice, status/effect/listing oracle, permission-set "
                     "inference",
        "design_ref": "DESIGN.md section 6, C13",
    },
    "C07": {
        "bin": "c07",
        "level": "exploration",
        "quick": {"shards": 12, "budget_s": 60, "min_evaluations": 200},
        "thorough": {"shards": 14, "budget_s": 900, "min_evaluations": 10000},
        "san_stages": [
            {"kind": "miri", "tiers": ["thorough"], "shards": 14,
             "budget_s": 240, "mix": "toy"},
            {"kind": "tsan", "tiers": ["thorough"], "shards": 6,
             "budget_s": 150},
        ],
        "rule": (
            "(a) toy aggregate whose state is the append-only list of "
            "unique ids on the bare AggregateStore: 2-8 OS threads x 3-10 "
            "operations (append / rejected / no-op / pre-save-failure / "
            "read / snapshot / history listing) on 1-3 entities (the first entity is CREATED "
            "by all threads at once: exactly one may be told it created "
            "it), through one or two store "
            "instances over the same storage, disk and memory back-ends, "
            "history cache on/off, verif yield hook (seeded per-thread "
            "sleeps/yields at lock acquisition, between locks, before/"
            "after the command store, before the cache update; hot-site "
            "mode in alternate histories). Every acknowledgement and read "
            "is recorded at the client boundary; the checker verifies: "
            "each acknowledged id exactly once in the final list, each "
            "returned state ends with the own id and is a prefix of the "
            "final order, no version acknowledged twice, versions never go "
            "backwards for a client, final version = 1 + accepted + "
            "rejected, no trace of no-ops and pre-save failures, stored "
            "command keys contiguous, history API lists every command in "
            "order with its actor and the right number of error records, a "
            "fresh store instance and the second instance load the same "
            "state. (b) real CertAuth + publication WAL through the "
            "managers: 3-6 threads issuing ROA deltas with unique prefixes, "
            "rejected deltas and reads against two CAs, then the same "
            "counting/ordering rules, the history API, and a relying-party "
            "walk after catch-up. (c) directed pre-emption, one context "
            "switch per run: a background task of the real scheduler code "
            "(the daily snapshot job, which works through its own store "
            "instances; an RRDP update) is parked at its k-th yield point "
            "(quick: 5 seeded positions per template world, thorough: every "
            "position) while a complete API command plus the repository "
            "synchronisations of both CAs run on another thread (they "
            "finish after the release when they need a lock the parked "
            "task holds); afterwards the running instance and an instance "
            "opened afresh on the same directory must show the same "
            "configured ROAs and published files, with the acknowledged "
            "change in them, and the tree must be RP-valid. evaluations = "
            "entities checked per history + directed runs; "
            "distinct_nontrivial = distinct orders in which the "
            "threads entered the critical section with at least two "
            "switches between threads + distinct (victim, yield site, "
            "intruder overlapped or not) directed situations."
            " (a2) toy write-ahead-log entity on the bare WalStore: 1-6 "
            "threads send appends / rejected / no-op commands and reads "
            "through the command-taking instance while a second instance "
            "over the same storage writes snapshots; acknowledged ids "
            "exactly once, prefix-closed reads, revision = number of "
            "accepted commands in every returned state, a freshly opened "
            "instance reads back the same state and continues at revision + "
            "1. "
            " Wave 5 (life cycle): 3-6 threads create, remove and "
            "re-create one entity and append to it at the same time (disk "
            "and memory): acknowledged creations <= 1 + removal calls, a "
            "created entity is empty, no id twice, own id last, and an "
            "instance opened afresh loads what the running one holds."
        ),
        "assumptions": COMMON_ASSUMPTIONS + [
            "interleavings are those the OS scheduler produces under the "
            "seeded perturbation; they are sampled, not enumerated; the "
            "directed part enumerates single pre-emptions at the yield "
            "points of the verif-hooks only (lock acquisition, between "
            "locks, around command/WAL stores and cache updates)",
            "thorough tier only: a Miri stage (FFI-free slice: memory "
            "back-end + AggregateStore + toy aggregate, schedules chosen by "
            "Miri's seeded scheduler) and a ThreadSanitizer stage (the "
            "regular worker) run after the native shards; a sanitizer report "
            "with a krill frame is a violation, a tool-chain problem is "
            "inconclusive (DESIGN.md section 2.4)",
        ],
        "level_text": (
            "Runtime monitoring of real multi-threaded executions of the "
            "store code with an offline history checker made unambiguous "
            "by unique ids (a read identifies exactly the commands it saw). "
            "Many short histories; schedule diversity from the yield hook "
            "and reported as distinct critical-section orders."
        ),
        "level_note": (
            "Trusted: the harness' toy aggregate and its client-side log "
            "(mutex-protected, appended after the call returns)."
        ),
        "technique": "runtime monitoring: client-boundary history recording "
                     "+ prefix/version/exactly-once checker under schedule "
                     "perturbation; thorough tier adds Miri (UB/data-race "
                     "interpreter, seeded schedules) and ThreadSanitizer "
                     "stages",
        "design_ref": "DESIGN.md section 4, C07",
    },
    "C12": {
        "bin": "c12",
        "san_stages": [
            {"kind": "asan", "tiers": ["thorough"], "shards": 4,
             "budget_s": 150},
        ],
        "level": "exploration",
        "quick": {"shards": 12, "budget_s": 150, "min_evaluations": 5000},
        "thorough": {"shards": 12, "budget_s": 400, "min_evaluations": 150000},
        "rule": (
            "evaluations = signed protocol messages handed to CaManager::"
            "rfc6492 / RepositoryManager::rfc8181 and judged: the complete "
            "combination table (about 1250 cases in both tiers: signing-key class "
            "{current, other child's/publisher's, replaced, replaced-older, "
            "random, expired CMS under the current key, forged issuer "
            "(EE cert + CRL name the registered key, signed by an attacker)} "
            "x claimed sender {kid1, kid2, unregistered} x recipient {top, "
            "top2; one repository} x request kind (13 provisioning kinds: "
            "list, list with foreign recipient field, issue without limit / "
            "subset limit / limit partly outside / unknown class / for the "
            "key certified to the other child, the same while that child is "
            "suspended at the parent (afterwards the owner is un-suspended "
            "and must hold the same key with the same resources as before), "
            "revoke other child's key, "
            "revoke own key (a positive answer must have taken effect), "
            "revoke own key under a class name the parent does not have, a "
            "list request while the claimed sender is suspended (only an "
            "authentic one may un-suspend it), reissue; 7 publication kinds: list, publish "
            "inside base, update, publish in the other publisher's base, "
            "other host, withdraw other publisher's object, withdraw own) x "
            "{before, after ca_update_id + child id update + publisher "
            "re-registration}) plus single-bit corruptions (quick: 4 "
            "messages, every bit of signerInfo incl. signed attributes and "
            "signature, every 8th bit elsewhere; thorough: every bit of 12 "
            "messages). distinct_nontrivial = distinct cells (protocol, "
            "phase, key class, claimed sender, recipient, kind) + distinct "
            "(protocol, DER region) flipped."
        ),
        "assumptions": COMMON_ASSUMPTIONS + [
            "the harness plays remote children/publishers with its own "
            "KrillSigner; krill-as-client validation of remote replies is "
            "not exercised",
            "replay of an unmodified valid message inside its validity "
            "window and the recipient field of an rfc6492 message (krill "
            "does not compare it with the addressed CA; counted, not "
            "judged) are outside the statement",
            "the publication server has no identity update operation; a "
            "publisher's identity is replaced by remove + create",
            "a corrupted message is tolerated only when it re-decodes to "
            "the identical XML and validates under the registered key",
        ],
        "level_text": (
            "Runtime monitoring, bounded-exhaustive: the real rfc6492 / "
            "rfc8181 entry points receive harness-signed CMS for every cell "
            "of the key x sender x recipient x kind x phase table and every "
            "selected single-bit corruption; a registration model kept by "
            "the harness predicts authentic/unauthentic, and replies, full "
            "state snapshots and the child status store are compared "
            "before/after every request."
        ),
        "level_note": (
            "Trusted: rpki-rs CMS/XML decoding and validation used to judge "
            "replies and accepted corruptions; openssl; the harness' DER "
            "region walker (only labels regions)."
        ),
        "technique": "runtime monitoring: registration-model oracle over an "
                     "exhaustive identity/sender/recipient/request table + "
                     "exhaustive single-bit corruption of signed messages",
        "design_ref": "DESIGN.md section 6, C12",
    },
    "C15": {
        "bin": "c15",
        "level": "exploration",
        "quick": {"shards": 12, "budget_s": 65, "min_evaluations": 3000},
        "thorough": {"shards": 14, "budget_s": 600, "min_evaluations": 40000},
        "rule": (
            "evaluations = hostile messages judged (to the proxy and to the "
            "signer) plus the oracle evaluations of every honest exchange "
            "(nonce, one response per child request, responses held for the "
            "right child, delivery counts from the proxy's command log, "
            "proxy objects = accepted response = published files, manifest/"
            "CRL numbers). A case is distinct and non-trivial as the cell "
            "(message class, world state idle/open/processed) whose message "
            "reached krill's own checks; 35 response classes and 20 request "
            "classes x 3 states + the second-make-request cell + accepted "
            "honest/positive-control deliveries = 165 cells."
        ),
        "assumptions": COMMON_ASSUMPTIONS + [
            "proxy-only krill instance + external TrustAnchorSignerManager "
            "(own storage) through public API; a second proxy/signer pair and "
            "an impostor signer provide cross-wired messages",
            "'refused without change' is judged on the aggregate state "
            "without the command counter: krill stores a refused command "
            "with its error and increments the version by design",
            "a replayed request validly signed by the associated proxy is "
            "processed again by the signer (it keeps no nonce memory); the "
            "statement only demands the proxy's signature",
            "overrides are generated in [current+1, current+40]; u64::MAX "
            "(after which the number wraps to 0) only with "
            "--boundary-override 1, not in the registered commands",
        ],
        "level_text": (
            "Runtime monitoring: the real proxy aggregate, signer aggregate "
            "and signer manager process generated honest exchanges and the "
            "full matrix of replayed, stale, re-ordered, cross-wired, "
            "modified and forged messages in every world state; acceptance of "
            "a hostile message, any state/publication change after a refusal, "
            "response or delivery counts other than one, and non-increasing "
            "manifest/CRL numbers are reported."
        ),
        "level_note": (
            "Trusted: rpki-rs CMS/manifest/CRL decoding; the scheduler "
            "stand-in; delivery counts are read from the proxy's stored "
            "command log."
        ),
        "technique": "runtime monitoring: hostile message matrix x world "
                     "states + model-based accounting of child responses",
        "design_ref": "DESIGN.md section 6, C15",
    },
    "C20": {
        "bin": "c20",
        "level": "exploration",
        "quick": {"shards": 12, "budget_s": 90, "min_evaluations": 50000},
        "thorough": {"shards": 12, "budget_s": 600, "min_evaluations": 900000},
        "rule": (
            "evaluations = credentials judged (credential x transport x "
            "provider chain: identity fingerprint of 2-5 requests + recorded "
            "actor) + login attempts judged + end-of-run effect checks. Per "
            "pass 8 real-daemon runs on one data directory: 7 provider "
            "chains (admin token only / config file + admin token, Unix map "
            "root, nobody, both, none) + one restart with a user removed and "
            "one demoted; a second instance supplies foreign tokens. Inputs: "
            "every truncation and single-bit flip of two issued tokens, "
            "re-encodings, concatenations, splices, sessions sealed under "
            "wrong keys, ~150 admin-token variants, junk up to 200 kB, "
            "Basic/Bearer confusion, a nonce-reuse forgery attempt across "
            "restarts; login matrix over ~25 configured names in case/"
            "whitespace/NFKC families x password variants. A case is "
            "distinct and non-trivial = a (mutation class or login kind, "
            "provider chain, transport/peer) cell that was judged."
            " Round d: another base64 spelling of the bytes of an issued "
            "token (padding dropped, other alphabet, non-zero trailing "
            "bits) is a re-encoded token and must authenticate nobody. "
        ),
        "assumptions": [
            "executions are produced by the harness' seeded generators; "
            "real daemon (start_krill_daemon, feature verif-hooks) on a data "
            "directory populated in-process; OpenID Connect not exercised",
            "password hashes are those `krillc config user` would print; "
            "passwords are compared modulo trim+NFKC, as krillc hashes them",
            "a spelling that decodes to the bytes of an issued token, or "
            "differs only in keyword case/blanks, is the same credential: it "
            "may be served as that identity or refused; krill takes none",
            "identity served is observed through 7 roles with pairwise "
            "different rights on 5 probe requests plus the actor in the "
            "command history; 400/431 from hyper count as refused",
        ],
        "level_text": (
            "Runtime monitoring: the real daemon answers mutated credentials "
            "under every provider chain on both transports and as two socket "
            "peers; an independent model of who a credential is says which "
            "identity may be served; logins are judged against the "
            "configured users; refused changes must leave no trace."
        ),
        "level_note": (
            "Trusted: the harness' HTTP client, the hand-written role model "
            "and NFKC table, per-thread setresuid for the nobody peer."
        ),
        "technique": "runtime monitoring: real daemon x provider chains x "
                     "credential mutation, identity-fingerprint and "
                     "audit-actor oracle, login matrix, nonce-reuse forgery",
        "design_ref": "DESIGN.md section 6, C20",
    },
    "C18": {
        "bin": "c18",
        "level": "exploration",
        "quick": {"shards": 8, "budget_s": 70, "min_evaluations": 50},
        "thorough": {"shards": 14, "budget_s": 900, "min_evaluations": 2000},
        "san_stages": [
            {"kind": "tsan", "tiers": ["thorough"], "shards": 4,
             "budget_s": 150},
        ],
        "rule": (
            "Rounds on the REAL thread pool (num_threads 4) and the REAL "
            "scheduler thread (StartupManager::run_scheduler + promote): a "
            "hierarchy TA -> {p -> {c1, c2}, q} is bulk-imported through "
            "the API, then 4-12 concurrent clients issue 3-7 operations "
            "each through the async KrillManager API: ROA additions with "
            "globally unique prefixes on four CAs, deliberately rejected "
            "deltas, entitlement updates of c1 at p (two values), "
            "refresh-all, republish-all (forced or not), repository syncs, "
            "key-roll init/activate on c2, the daily snapshot job coming "
            "due (it writes snapshots through its own store instances while "
            "the live ones take commands), and reads (CA info, routes, "
            "history, repository statistics, CA statistics) - on the same "
            "CA, different CAs, a parent and its child, and the publication "
            "server, while the scheduler executes the triggered tasks; disk "
            "and memory back-ends; verif yield hook active. Oracles: "
            "progress monitor (all calls return within 150 s, otherwise "
            "thread states and CPU time decide deadlock vs inconclusive), "
            "every answer explainable by a serial order, the queue becomes "
            "idle, then: tree RP-valid, per CA the configured ROAs are "
            "exactly the initial ones plus every accepted addition, each "
            "once, configured-and-held ROAs are validated and nothing else, "
            "the child's entitlement is one of the written values; on the "
            "disk back-end a second instance opened on the directory after "
            "the round shows the same published files, configured ROAs and "
            "parent/repository/child status "
            "as the running one did (nothing acknowledged is lost over a "
            "restart). "
            "evaluations = final-state comparisons per CA and round; "
            "distinct_nontrivial = distinct (back-end, set of operation "
            "kinds in the round) mixes; lock_order_pairs lists the "
            "(previous site -> lock site) pairs seen by the yield hook."
            " Deadlock verdict (round d): calls in flight are registered at "
            "the client boundary; a window of 20 s without any call "
            "returning, with at least 90% of 250 ms samples finding every "
            "other thread asleep and at most 1 s of CPU used by the "
            "process, is the witness; calls outstanding after 150 s while "
            "the process keeps working are inconclusive. "
            " Round e: after the queue became idle the RRDP snapshot on "
            "disk must equal the content the server accepted (polled for 20 "
            "s). "
            " Wave 5: a remote publisher (pre-signed RFC 8181 requests for "
            "URIs of their own) publishes from the client tasks as well: "
            "every request must be answered with success, and afterwards "
            "the publisher holds exactly the acknowledged objects (also in "
            "the served RRDP snapshot and in an instance opened afresh)."
        ),
        "assumptions": COMMON_ASSUMPTIONS + [
            "interleavings are sampled from the OS scheduler under seeded "
            "perturbation; a deadlock needing more than 12 clients or a "
            "specific three-way timing may be missed",
            "RFC 8181/6492 exchanges from harness-played remote parties are "
            "not part of the concurrent mix (C12 covers them sequentially); "
            "local parent/child and CA/repository exchanges are",
            "'waits for ever' is restated as: not returned after 150 s "
            "while every thread is blocked and no CPU time is consumed for "
            "3 s; a slow but progressing run is inconclusive",
        ],
        "level_text": (
            "Runtime monitoring of real concurrent executions of the "
            "daemon's worker and scheduler threads with a progress monitor "
            "and a commutativity-based serial-equivalence check (unique "
            "prefixes make the accepted set readable from the final state)."
        ),
        "level_note": (
            "Trusted: the harness' client-side log; rpki-rs validation for "
            "the final relying-party walk; a ThreadSanitizer stage runs "
            "in the thorough tier only."
        ),
        "technique": "runtime monitoring: real thread pool + scheduler under "
                     "concurrent clients, progress monitor and serial-"
                     "equivalence oracle; thorough tier adds a "
                     "ThreadSanitizer stage",
        "design_ref": "DESIGN.md section 4, C18",
    },
    "C06": {
        "bin": "c06",
        "level": "exploration",
        "quick": {"shards": 12, "budget_s": 60, "min_evaluations": 2000},
        "thorough": {"shards": 14, "budget_s": 1100, "min_evaluations": 50000},
        "rule": (
            "evaluations = entity comparisons (JSON of one entity loaded in "
            "one mode vs. its reference; plus one per API view compared "
            "between the running instance and a second instance on a copy). "
            "Histories: profiles general/entitlements/revocations x standard/"
            "chain forest, disk storage, krill's own snapshot task run at a "
            "scripted and 1-2 random interior points, comparisons at 2-3 "
            "random interior points and at the end. A case is distinct and "
            "non-trivial per (entity type, load mode) when at least 5 stored "
            "commands/change sets were replayed in that load. Load modes: "
            "as-is:no-snapshot, as-is:snapshot+tail, as-is:snapshot-only, "
            "pure (WAL: oldest-snapshot+all-sets), old-snapshot+tail, "
            "resnapshot."
            " Round d: the scripted block also plays a publisher that is "
            "not a CA of the instance, whose staged changes cancel out "
            "completely (publish + withdraw of one object between two RRDP "
            "updates); the snapshot job runs exactly then and a comparison "
            "point follows. "
            " Wave 5: every third history performs five complete key "
            "rolls of the trust anchor's child before the first snapshot, "
            "so that the signer and proxy hold more than ten exchanges when "
            "the snapshot job runs."
        ),
        "assumptions": COMMON_ASSUMPTIONS + [
            "the running instance has no accessor for repository access/"
            "content, signer info and properties: their as-is load is the "
            "reference for the other load modes and the API views tie it to "
            "the running instance",
            "masked: CertAuth resources.*.last_key_change and routes.map.*."
            "since (the two declared wall-clock fields); order of element "
            "lists inside stored RRDP deltas (hash-map order in apply, not "
            "shown by any API view; --strict-delta-order 1 reports it); API "
            "lists equal up to element order count as equal",
            "next to the JSON of each state the sorted lines of its pretty "
            "Debug output are compared (time stamps blanked), so that fields "
            "left out of the stored form are compared as well; SignerInfo "
            "has no Debug implementation and is compared as JSON only",
        ],
        "level_text": (
            "Runtime monitoring: the real stores replay the real audit logs "
            "of generated histories from copies of the data directory in "
            "six load modes and a second full instance is started on a "
            "copy; serde views and API views are compared with the running "
            "instance."
        ),
        "level_note": (
            "Trusted: serde_json value equality; the harness copies an idle "
            "directory (nothing runs between operations in the stand-in)."
        ),
        "technique": "runtime monitoring: differential replay (live vs. "
                     "fresh stores/instance on copies) over seeded histories",
        "design_ref": "DESIGN.md section 4, C06",
    },
    "C16": {
        "bin": "c16",
        "san_stages": [
            {"kind": "asan", "tiers": ["thorough"], "shards": 6,
             "budget_s": 120},
        ],
        "level": "exploration",
        "quick": {"shards": 12, "budget_s": 70, "min_evaluations": 60000},
        "thorough": {"shards": 14, "budget_s": 420, "min_evaluations": 1000000},
        "rule": (
            "evaluations = inputs executed (in-process mirror of 'decode body -> "
            "manager call' for 30 entry points + requests to the real daemon). "
            "A case is distinct and non-trivial per (entry point, outcome kind "
            "decode-error / refused / accepted, outcome class) where the class "
            "is the krill error label + normalised message head and innermost "
            "cause (digits dropped, quoted parts blanked; max 70 classes per "
            "entry), i.e. how far into processing the input got; for the HTTP "
            "slice (route template, status). Counters panics, exits, "
            "digest_changes_after_error must be 0 apart from known findings."
            " Round d/e: scripted, validly signed publication requests with "
            "repeated or contradicting elements for one URI (accepted "
            "content is made RRDP-visible before the next request); free- "
            "text fields get multi-byte text placed across typical byte "
            "limits. "
        ),
        "assumptions": COMMON_ASSUMPTIONS + [
            "the API entries are a hand-written mirror of dispatch/*.rs and "
            "KrillManager (bulk import is a copy of the private cas_import); "
            "the HTTP layer itself is only covered by the smaller real-daemon "
            "slice (TCP, admin token, https disabled, no testbed/OpenID)",
            "a worker thread with a 2 MiB stack stands for krill's threads; "
            "production arithmetic profile (no overflow checks)",
            "'unchanged after an error' compares CA info (without command "
            "counters and without the suspended-children list), ROAs, ASPAs, "
            "BGPsec, TA proxy, publishers and publisher files; status store "
            "and history excluded",
            "an entry that killed the worker process is left out for the rest "
            "of that shard; hangs are reported inconclusive",
        ],
        "level_text": (
            "Runtime monitoring: seeded structured mutations of valid CMS/XML/"
            "JSON/notation seeds run through the real krill decoding and manager "
            "code under catch_unwind in a supervised subprocess, plus a slice "
            "through the real daemon; panics, process exits/aborts and state "
            "changes after an error reply are violations."
        ),
        "level_note": "Coverage is what the mutators reach; OpenSSL and "
                      "rpki-rs are exercised, not trusted.",
        "technique": "runtime monitoring: supervised mutation-driven "
                     "robustness monitor + state-digest oracle",
        "design_ref": "DESIGN.md section 7, C16",
    },
    "C19": {
        "bin": "c19",
        "level": "exploration",
        "quick": {"shards": 12, "budget_s": 70, "min_evaluations": 6000},
        "thorough": {"shards": 14, "budget_s": 600, "min_evaluations": 60000},
        "rule": (
            "evaluations = status comparisons made right after an exchange "
            "whose outcome the harness recorded at the boundary (return value "
            "of ca_sync_parent / cas_repo_sync_single / CaManager::rfc6492, or "
            "the completion of a pumped SyncParent/SyncRepo task), plus "
            "published-list vs server-content comparisons (set and multiset), "
            "entitlement comparisons with the parent's own list reply, full "
            "view comparisons across restart and removal checks. A case is "
            "distinct and non-trivial per (exchange kind, outcome, cause) "
            "triple that was observed and compared."
            " Round e: a difference between the status list and the "
            "server's content is reported under one of three signatures "
            "(content differs for an object the server holds / object of "
            "the server not listed / entries the server does not hold). "
            " Wave 5 (remote part, every third history of a shard): CA x of "
            "this instance has its parent rp in a SECOND krill instance and, "
            "after a move, its publication server there too (in-process "
            "transport, hook H7). 14 (thorough: 40) steps of {entitlement "
            "change by the remote parent, ROA change, move to the other "
            "server, roll start, nothing} x {no fault, server unreachable, "
            "reply lost}, each followed by one explicit parent and one "
            "explicit repository synchronisation whose outcome the harness "
            "knows: failure shown (with an error) exactly when the attempt "
            "failed; success with the entitlement the parent holds (when "
            "the synchronisation asked for it); published list = what the "
            "second server holds; the remote parent's own status for its "
            "child x; everything unchanged by a restart every fifth step."
        ),
        "assumptions": COMMON_ASSUMPTIONS + [
            "refusals have real causes only (child removed at the parent, "
            "parent CA deleted, publisher removed at the server, unsupported "
            "request payload, request signed with another CA's identity key); "
            "no fault injection",
            "only failures produced by the counter-party are asserted as "
            "'must show failure'; an attempt failing for a local reason is "
            "recorded and not judged",
            "one synchronisation attempt may consist of several exchanges: "
            "the last one decides",
            "the shown error is compared by label and by naming the "
            "counter-party handle, not byte for byte",
        ],
        "level_text": (
            "Runtime monitoring: the real CaManager/CaStatusStore run "
            "scripted-plus-seeded histories on a disk world (TA -> p,q -> "
            "c1,c2; c2 with two parents); the harness performs every "
            "exchange itself, records its outcome and compares the status, "
            "issues and child views with it, the published-object list with "
            "the publication server's content, and all views across restart "
            "and removal."
        ),
        "level_note": (
            "Trusted: the parent's own list() as the reference for the last "
            "list reply; the scheduler stand-in's Completion as outcome of "
            "pumped attempts; second-granular timestamps."
        ),
        "technique": "runtime monitoring: status views vs outcomes recorded "
                     "at the exchange boundary, shadow list vs server content",
        "design_ref": "DESIGN.md section 4, C19",
    },
    "C08": {
        "bin": "c08",
        "level": "fault_enumeration",
        "max_par": 21,
        "quick": {"shards": 21, "budget_s": 35, "min_evaluations": 100},
        "thorough": {"shards": 21, "budget_s": 1500, "min_evaluations": 6000},
        "rule": (
            "19 (operation kind x state class) pairs on TA -> p -> c: ROA "
            "delta (steady / during roll), a REFUSED ROA delta (its only "
            "write is the audit record of the refusal), ASPA update, BGPsec "
            "add, child "
            "entitlement shrink and grow (incl. the child's sync and the "
            "re-issue it triggers), child suspend, child remove, roll "
            "initiate (child and parent under the TA signer), roll activate, "
            "parent removal (two parents), forced republish, forced ROA "
            "renewal, CA deletion, child registration, parent addition, "
            "removal of a publisher that still has objects at the server. "
            "For each pair one fault-free recording run numbers EVERY "
            "key-value and file-system mutation of the operation and of the "
            "tasks it triggers up to quiescence and copies the data and "
            "repository directories before each; quick checks up to 6 cuts "
            "per pair (distinct mutation labels first), thorough ALL cuts. "
            "Each cut is realised (a) as a crash: restore the copy, restart "
            "the instance, and (b) as a single failing write on a running "
            "instance (followed by a restart when the scheduler would exit). "
            "The operation is preceded by two accepted priming commands "
            "(one per CA) with nothing read in between, so that on even "
            "cuts the aggregate cache is one command behind the store when "
            "the failing write happens (odd cuts: cache brought up to date "
            "first). "
            "Oracles: every entity/status/publisher loads; no acknowledged "
            "version lost; the task queue alone (no synchronisation asked "
            "for, 400 virtual seconds) brings the repository in line with "
            "what was committed; after bounded pumping and explicit syncs the tree "
            "is RP-valid and configuration = published objects; after "
            "re-submitting the request and full catch-up the normalised "
            "observable state (configuration, children, parents, class "
            "shapes, payload sets, object counts per CA and kind, publisher "
            "file counts) equals the fault-free run's; two further accepted "
            "probe commands behave as in the fault-free run, and after a "
            "restart everything acknowledged since the fault (re-submission "
            "and probes) is still there. evaluations = oracle evaluations; "
            "distinct_nontrivial = distinct (pair, realisation, mutation "
            "label) cuts checked."
            " Round d: a 20th pair cuts the daily snapshot job; after every "
            "crash realisation the publication server must not load at a "
            "serial behind the one its notification file on disk already "
            "names. "
            " Wave 6: a 21st pair runs the roll initiation on an instance "
            "with more than five CAs (start-up then does not queue a "
            "repository synchronisation for every CA, so a follow-up lost "
            "between a command and its scheduling is not rescued by the "
            "restart); cuts are checked in this order: the instants right "
            "after a command of an aggregate was stored - first those where "
            "the next mutation queues a task, latest command first, one per "
            "kind of next mutation, at most half of the cuts - then distinct "
            "mutation labels, then random ones (quick: 8 cuts per pair as "
            "far as the time budget reaches)."
        ),
        "assumptions": COMMON_ASSUMPTIONS + [RP_ASSUMPTION,
            "a crash loses everything after a mutation boundary; torn "
            "writes inside one write(2)/rename, missing fsync and "
            "directory-entry reordering are not modelled; memory back-end "
            "excluded (no restart semantics)",
            "only single-request operations are cut (a composite such as "
            "'create CA + publisher + parent' is several requests)",
            "violations whose cut lies between a pre-save listener write "
            "and the command store are reported under one root-cause "
            "signature per aggregate namespace and realisation (see "
            "known_findings.json); all other violations carry the exact "
            "mutation label",
        ],
        "level_text": (
            "Fault enumeration by runtime monitoring: the mutation hook in "
            "front of every storage and file-system write enumerates the "
            "cut set of each operation completely (thorough tier), each cut "
            "is executed in both realisations on the real code and judged "
            "by recovery oracles incl. an independent relying-party walk "
            "and comparison with the fault-free twin."
        ),
        "level_note": (
            "Trusted: the directory copies taken by the hook (single-"
            "threaded workload, all durable state under data/ and repo/), "
            "rpki-rs validation, the normal form's choice of what counts as "
            "observable."
        ),
        "technique": "runtime monitoring: complete enumeration of crash and "
                     "failed-write cuts via mutation hook + recovery oracles",
        "design_ref": "DESIGN.md section 4, C08",
    },
    "C14": {
        "bin": "c14",
        # the trust anchor's numbers under an operator-chosen manifest number
        # need a signer outside the daemon: the C15 worker plays one; in this
        # mode it reports (and this check keeps) only "manifest number = CRL
        # number" of the published trust-anchor objects
        "aux": [{"bin": "c15", "args": {"c14-numbers": 1},
                 "shards": {"quick": 1, "thorough": 2},
                 "budget_frac": 0.8, "keep_prefix": "c14:"}],
        "level": "exploration",
        "quick": {"shards": 12, "budget_s": 60, "min_evaluations": 1200},
        "thorough": {"shards": 14, "budget_s": 900, "min_evaluations": 20000},
        "rule": (
            "One world per scenario (TA -> {p, q}; p -> cur, stg, old; cur has "
            "a second resource class under q so that the two classes of one "
            "CA fall due at different times; stg held in the staging "
            "state of a key roll, old held after activation with its parent "
            "sync withheld; ROAs, ASPA, router certificate in every CA) under "
            "one of 8 timing configurations (defaults; smallest valid values; "
            "margin = lifetime; margin > lifetime; margin inside the jitter "
            "range; objects due per kind) x TA manifest lifetime 12/4/2 "
            "weeks x testbed on/off. Content changes, entitlement changes by "
            "the parent and maintenance runs (the real RepublishIfNeeded / "
            "RenewObjectsIfNeeded / RenewTestbedTa tasks, separately, "
            "combined and in both orders) are interleaved {no change, "
            "change before, change after}. For valid configurations the "
            "wall clock is moved by an LD_PRELOAD shim to 90 s before/after "
            "each manifest threshold and 1 h before/after each object "
            "threshold. evaluations = per key set and per object judgements "
            "of a maintenance run + payload comparisons + manifest/CRL "
            "number comparisons at every observation. One (thorough: two) "
            "auxiliary worker plays an external trust-anchor signer whose "
            "signing sessions carry an operator-chosen manifest number in "
            "every second exchange: the published TA manifest and CRL must "
            "carry the same number after each. distinct_nontrivial = "
            "distinct (timing configuration, key state, due/not-due/"
            "boundary/nothing-due, object kind or run mode) cells."
            " Wave 5: worlds with an odd scenario seed publish their ROAs "
            "aggregated per AS number (thresholds 1/1)."
        ),
        "assumptions": COMMON_ASSUMPTIONS + [RP_ASSUMPTION,
            "due / not due is computed by the harness from the decoded "
            "nextUpdate / notAfter, the configured margins and the clock "
            "with a 1 s guard band; judgements inside the band are counted "
            "as 'boundary' and not asserted",
            "virtual time needs a C compiler and a dynamically linked libc "
            "(LD_PRELOAD shim, self-tested at start); without it that part "
            "is inconclusive and the configuration lever alone decides",
            "several re-issues inside one task are checked against the "
            "exact count for renew and a bound (<= 4) for parent syncs; "
            "exactly +1 is asserted for every API call, republish run and "
            "TA renewal",
        ],
        "level_text": (
            "Runtime monitoring with a before/after oracle around every "
            "maintenance run of generated histories, over timing "
            "configurations with margins smaller, equal and larger than the "
            "lifetimes and, for valid configurations, with the wall clock "
            "moved across each threshold. Manifests, CRLs and objects are "
            "decoded from the publication server's content per key."
        ),
        "level_note": (
            "Trusted: rpki-rs decoding, the harness' reading of the "
            "ca_objects store, the clock shim (self-tested)."
        ),
        "technique": "runtime monitoring: threshold-walking virtual clock + "
                     "margin/lifetime configuration sweep, decoded "
                     "before/after oracle per key set",
        "design_ref": "DESIGN.md section 3, C14",
    },
    "C04": {
        "bin": "c04",
        "level": "exploration",
        "quick": {"shards": 12, "budget_s": 70, "min_evaluations": 250},
        "thorough": {"shards": 14, "budget_s": 1100, "min_evaluations": 15000},
        "rule": (
            "Bounded-exhaustive insertion orders: the roll of CA c (two "
            "resource classes under p and q, child g, ROAs/ASPA/router key) "
            "and of CA p (directly under the trust anchor, signer exchange "
            "as separate tasks) is scripted as initiate / new-key "
            "certificate travels / activate / revocation travels; ONE "
            "foreign operation sequence out of 18 kinds (ROA add, ROA "
            "remove, ASPA, BGPsec, parent shrinks or suspends the rolling "
            "CA, parent grows it, the rolling CA shrinks or suspends its "
            "child, a second initiate, an early or second activate, full "
            "sync with partial pump, forced republish with partial pump, "
            "the child rolls too, renewal runs, a single-task pump, parent "
            "shrinks / grows the rolling CA followed by a full "
            "synchronisation so that the new certificates arrive in that "
            "very stage) is "
            "inserted at each of the 5 gaps: 2 x (1 + 18 x 5) = 182 cases, "
            "all of them in the thorough tier (plus 600 seeded "
            "double insertions); the quick tier runs the 42 core cases "
            "(plain, entitlement change + sync, second initiate, early/"
            "second activate at every gap) first and then a seed-rotated "
            "slice of the others. After every API call and after every single "
            "background task: a non-current key (pending/new/old) of a CA "
            "whose publication is up to date publishes nothing but manifest "
            "and CRL, no product is validated under two keys of one class; "
            "whenever no publication or request is outstanding the "
            "validated payloads are exactly the configured-and-covered ones "
            "(nothing lost, nothing duplicated); no panic. At the end a "
            "completion driver (sync, un-suspend, activate; at most 12 "
            "rounds) must leave every class in the single-active-key state "
            "with the old key's certificate, manifest and CRL gone and the "
            "tree exact. evaluations = invariant evaluations; "
            "distinct_nontrivial = distinct (target, kind@gap) cases run."
            " Round d/e: cases alternate between simple and aggregated "
            "(per-ASN) ROA mode; the manifest of every non-current key "
            "(new, old) must list nothing besides its CRL. "
            " Wave 5 (lossy network): a third target x is a CA of this "
            "instance whose parent lives in a SECOND krill instance (itself "
            "a child of this instance's p), reached through the in-process "
            "transport hook H7; in the 'migrated' variant x also publishes "
            "at the second instance's server. x's roll is run plain and "
            "with the REPLY to the n-th next protocol message (n in 0..2) "
            "lost at each of the 5 gaps - the server acted, the sender saw a "
            "failed exchange - 2 x 16 cases (7 of them among the cases run "
            "first in quick). The completion driver (every CA of both "
            "instances calls its parents and its publication server) must "
            "bring the roll to the single-active-key state with an exact "
            "tree; a failed exchange waiting for krill's five-minute retry "
            "counts as outstanding work for the mid-roll exactness check."
            " Wave 6: an 18th insertion kind gives a class up in the middle "
            "of the roll (the rolling CA removes one of its two parents; the "
            "CA under the trust anchor removes its child); it is among the "
            "kinds run first in quick."
        ),
        "assumptions": COMMON_ASSUMPTIONS + [RP_ASSUMPTION,
            "orders of background tasks other than the ones the scripted "
            "pumps and the seeded tie-breaking produce are not enumerated",
            "role invariants are evaluated for a CA only when no repository "
            "synchronisation of that CA is outstanding (the repository then "
            "shows the CA's previous publication by design)",
        ],
        "level_text": (
            "Runtime monitoring over a bounded-exhaustive set of "
            "interleavings of roll steps with other operations, with "
            "per-step invariants from an independent relying-party walk and "
            "a bounded-progress completion driver for 'always completes'."
        ),
        "level_note": (
            "Trusted: rpki-rs validation; key roles are read from the API "
            "view of the CA; 'always completes' is restated as: within 12 "
            "rounds of sync/activate."
        ),
        "technique": "runtime monitoring: enumerated insertion orders of "
                     "roll steps x foreign operations with per-task "
                     "invariants and completion driver",
        "design_ref": "DESIGN.md section 3, C04",
    },
}
