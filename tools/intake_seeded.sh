#!/bin/bash
# usage: intake_seeded.sh <tag e.g. C11g>   copies /tmp/wt-<tag>-out to seeded/<Cxx-g>, removes the
# agent's worktree and target dir, queues the confirmation
tag=$1
id="${tag:0:3}-${tag:3}"
out=/tmp/wt-$tag-out
[ -d "$out" ] || { echo "no $out"; exit 1; }
mkdir -p /verif/seeded/$id
cp -r $out/. /verif/seeded/$id/
git -C /repo worktree remove --force /tmp/wt-$tag 2>/dev/null
rm -rf /tmp/wt-$tag /tmp/wt-$tag-target
echo "$id /verif/seeded/$id" >> /verif/.work/confirm_queue.txt
echo "queued $id"; ls /verif/seeded/$id
