#!/usr/bin/env python3
"""Driver for one /verif check: build the harness against /repo's working
tree (hooks on), shard the workload over worker processes, merge what the
monitors observed into evidence/<id>.json, match violations against
known_findings.json and print VIOLATION / KNOWN-FINDING lines.

Exit codes: 0 property held on everything explored (or only known findings),
1 violation (with VIOLATION line), 2 inconclusive/broken (never a VIOLATION).
"""
import fcntl
import glob
import json
import os
import shutil
import subprocess
import sys
import time
from concurrent.futures import ThreadPoolExecutor

VERIF = "/verif"
HARNESS = f"{VERIF}/harness"
TARGET = f"{VERIF}/.target"
WORK = f"{VERIF}/.work"

sys.path.insert(0, f"{VERIF}/tools")
from checks_table import CHECKS  # noqa: E402
from san_stage import run_stages  # noqa: E402


def log(msg):
    print(msg, flush=True)


def build(bins, profile_env=None):
    """Builds the given harness binaries; serialised by a lock file."""
    os.makedirs(TARGET, exist_ok=True)
    env = dict(os.environ)
    env["CARGO_NET_OFFLINE"] = "true"
    env["CARGO_TARGET_DIR"] = TARGET
    if profile_env:
        env.update(profile_env)
    # keep the lock file of the harness in step with /repo's
    try:
        shutil.copyfile("/repo/Cargo.lock", f"{HARNESS}/Cargo.lock.repo")
    except OSError:
        pass
    with open(f"{TARGET}/.build.lock", "w") as lock:
        fcntl.flock(lock, fcntl.LOCK_EX)
        cmd = ["cargo", "build", "--release", "--offline"]
        for b in bins:
            cmd += ["--bin", b]
        t0 = time.time()
        p = subprocess.run(cmd, cwd=HARNESS, env=env, stdout=subprocess.PIPE,
                           stderr=subprocess.STDOUT, text=True)
        dt = time.time() - t0
        if p.returncode != 0:
            tail = "\n".join(p.stdout.splitlines()[-40:])
            return False, dt, tail
        return True, dt, ""


def run_shard(check_id, spec, tier, seed, shard, nshards, budget, aux=None):
    """One worker process. `aux` (an entry of spec["aux"]) runs another
    property's worker in a mode that judges a clause of THIS property; its
    shard directory is named after it and only violations whose signature
    starts with aux["keep_prefix"] are kept by the caller."""
    tag = f"aux-{aux['bin']}-{shard}" if aux else str(shard)
    work = f"{WORK}/{check_id}/s{seed}/{tag}"
    shutil.rmtree(work, ignore_errors=True)
    os.makedirs(work, exist_ok=True)
    out = f"{work}/report.json"
    cmd = [f"{TARGET}/release/{aux['bin'] if aux else spec['bin']}",
           "--seed", str(seed), "--tier", tier, "--shard", str(shard),
           "--nshards", str(nshards), "--work", work, "--out", out,
           "--budget", str(budget)]
    argsrc = aux.get("args", {}) if aux else spec.get("args", {}).get(tier, {})
    for k, v in argsrc.items():
        cmd += [f"--{k}", str(v)]
    env = dict(os.environ)
    env.update(spec.get("env", {}))
    env.setdefault("RUST_BACKTRACE", "1")
    timeout = budget * spec.get("timeout_factor", 3) + 180
    t0 = time.time()
    logf = f"{work}/worker.log"
    res = {"shard": tag, "status": "ok", "aux": aux}
    try:
        with open(logf, "w") as lf:
            p = subprocess.run(cmd, stdout=lf, stderr=subprocess.STDOUT,
                               timeout=timeout, env=env, cwd=work)
        rc = p.returncode
    except subprocess.TimeoutExpired:
        rc = None
        res["status"] = "timeout"
    res["wall_s"] = time.time() - t0
    res["rc"] = rc
    res["log"] = logf
    if os.path.exists(out):
        try:
            res["report"] = json.load(open(out))
        except Exception as e:  # noqa: BLE001
            res["status"] = f"bad report: {e}"
    else:
        res["report"] = None
        inflight = out[:-5] + ".inflight"
        if rc is not None and os.path.exists(inflight):
            try:
                res["inflight"] = json.load(open(inflight))
            except Exception:  # noqa: BLE001
                res["inflight"] = {"what": "unreadable"}
        if res["status"] == "ok":
            res["status"] = f"died rc={rc}"
    # partial report next to a death
    partial = f"{work}/partial.json"
    if res["report"] is None and os.path.exists(partial):
        try:
            res["report"] = json.load(open(partial))
            res["partial"] = True
        except Exception:  # noqa: BLE001
            pass
    return res


def load_known():
    path = f"{VERIF}/known_findings.json"
    if not os.path.exists(path):
        return []
    return json.load(open(path)).get("findings", [])


def main():
    if len(sys.argv) < 2:
        log("usage: run_check.py <property id> [--tier quick|thorough]")
        return 2
    check_id = sys.argv[1]
    tier = os.environ.get("VERIF_TIER", "quick")
    if "--tier" in sys.argv:
        tier = sys.argv[sys.argv.index("--tier") + 1]
    if tier not in ("quick", "thorough"):
        tier = "quick"
    seed = int(os.environ.get("VERIF_SEED", "1") or 1)
    spec = CHECKS[check_id]
    t_start = time.time()

    ok, build_s, tail = build([spec["bin"]] + spec.get("extra_bins", [])
                              + [a["bin"] for a in spec.get("aux", [])])
    if not ok:
        log(f"INCONCLUSIVE property={check_id} harness/krill build failed "
            f"(not a verdict on the property):\n{tail}")
        return 2

    tcfg = dict(spec[tier])
    # development knob (not used by the registered commands): run a tier
    # with a fraction of its time budget
    scale = float(os.environ.get("VERIF_BUDGET_SCALE", "1") or 1)
    if scale != 1:
        tcfg["budget_s"] = max(10, int(tcfg["budget_s"] * scale))
        tcfg["min_evaluations"] = max(
            1, int(tcfg.get("min_evaluations", 1) * scale * 0.5))
    nshards = tcfg["shards"]
    budget = tcfg["budget_s"]
    par = min(nshards, int(os.environ.get("VERIF_JOBS",
                                          str(spec.get("max_par", 14)))))
    shutil.rmtree(f"{WORK}/{check_id}/s{seed}", ignore_errors=True)
    # witnesses of this (check, seed) are rewritten by this run
    rdir = os.environ.get("KVH_REPLAY_DIR", f"{VERIF}/replays")
    for f in glob.glob(f"{rdir}/{check_id}_*_s{seed}_*.json"):
        try:
            os.remove(f)
        except OSError:
            pass
    if "--stage-only" in sys.argv:
        nshards = 0
    with ThreadPoolExecutor(max_workers=max(par, 1)) as ex:
        futs = [ex.submit(run_shard, check_id, spec, tier, seed, i, nshards,
                          budget) for i in range(nshards)]
        if nshards:
            for a in spec.get("aux", []):
                n = a.get("shards", {}).get(tier, 1)
                for i in range(n):
                    futs.append(ex.submit(
                        run_shard, check_id, spec, tier, seed, i, n,
                        int(budget * a.get("budget_frac", 1.0)), a))
        results = [f.result() for f in futs]

    counters = {}
    distinct = {}
    samples = []
    violations = []
    inconclusive = []
    notes = {}
    conclusive_shards = 0
    for r in results:
        rep = r.get("report")
        if r["status"] != "ok":
            infl = r.get("inflight")
            if (infl is not None and r.get("rc") == 1
                    and infl.get("exit_is_violation")):
                # krill called process::exit(1) inside the operation
                sig = infl.get("signature", "process-exit")
                violations.append({
                    "signature": sig,
                    "detail": f"process exited (rc=1) during: "
                              f"{json.dumps(infl)[:400]}",
                    "replay": r["log"],
                })
            else:
                inconclusive.append(
                    f"shard {r['shard']}: {r['status']} (log {r['log']})")
        if rep is None:
            continue
        if r["status"] == "ok" and not r.get("aux"):
            conclusive_shards += 1
        for k, v in rep.get("counters", {}).items():
            if k.startswith("max_"):
                counters[k] = max(counters.get(k, 0), v)
            else:
                counters[k] = counters.get(k, 0) + v
        for k, v in rep.get("distinct", {}).items():
            distinct.setdefault(k, set()).update(v)
        for s in rep.get("samples", []):
            if len(samples) < 5:
                samples.append(s)
        aux = r.get("aux")
        for v in rep.get("violations", []):
            if aux and not v["signature"].startswith(aux["keep_prefix"]):
                # a violation of the auxiliary worker's own property: not
                # this check's to report (its own check does)
                continue
            if not any(x["signature"] == v["signature"] for x in violations):
                violations.append(v)
        if aux:
            # an auxiliary worker's set-up trouble is not this check's
            counters["aux_inconclusive"] = counters.get(
                "aux_inconclusive", 0) + len(rep.get("inconclusive", []))
            continue
        inconclusive += [f"shard {r['shard']}: {x}"
                         for x in rep.get("inconclusive", [])]
        for k, v in rep.get("notes", {}).items():
            notes.setdefault(k, v)

    # sanitizer stages (Miri / ThreadSanitizer), thorough tier only
    stage_summaries = []
    for st, out in run_stages(check_id, spec, tier, seed,
                              f"{WORK}/{check_id}/s{seed}", log):
        for v in out["violations"]:
            if not any(x["signature"] == v["signature"] for x in violations):
                violations.append(v)
        inconclusive += out["inconclusive"]
        stage_summaries.append({
            "tool": st["kind"], "shards": st["shards"],
            "shards_completed": out.get("ok_shards", 0),
            "budget_s": st["budget_s"], "build_s": out.get("build_s"),
            "wall_s": out.get("wall_s"),
            "counters": out["counters"],
            "distinct_schedules_or_cases": len(
                out["distinct"].get("nontrivial", ())),
            "sanitizer_reports": out["reports"][:20],
            "monitor_violations": [v["signature"]
                                   for v in out["violations"]],
            "sample": out["samples"][:1],
        })
        log(f"{check_id}: stage {st['kind']}: shards "
            f"{out.get('ok_shards', 0)}/{st['shards']} histories="
            f"{out['counters'].get('histories', out['counters'].get('evaluations', 0))} "
            f"reports={len(out['reports'])} wall={out.get('wall_s')}s")
    if "--stage-only" in sys.argv:
        log(json.dumps(stage_summaries, indent=1, default=str)[:3000])
        return 1 if violations else 0

    post = spec.get("post")
    if post:
        post(check_id, tier, seed, counters, distinct, samples, violations,
             inconclusive, notes)

    known = [k for k in load_known() if k.get("property") == check_id]
    known_hits = []
    new_violations = []
    for v in violations:
        hit = None
        for k in known:
            if k.get("status") == "known" and k.get("signature") == \
                    v["signature"]:
                hit = k
                break
        if hit:
            known_hits.append((hit, v))
        else:
            new_violations.append(v)

    evaluations = counters.get("evaluations", 0)
    nontrivial = len(distinct.get("nontrivial", ()))
    min_evals = tcfg.get("min_evaluations", 1)
    coverage = {
        "evaluations": evaluations,
        "distinct_nontrivial": nontrivial,
        "rule": spec["rule"],
        "samples": samples if samples else [
            {"note": "no sample recorded"}],
        "counters": counters,
        "distinct_sizes": {k: len(v) for k, v in distinct.items()},
        "shards": nshards,
        "conclusive_shards": conclusive_shards,
        "inconclusive": inconclusive[:20],
        "known_findings_matched": [k["signature"] for k, _ in known_hits],
        "notes": notes,
        "build_s": round(build_s, 1),
    }
    if stage_summaries:
        coverage["sanitizer_stages"] = stage_summaries
    for k in spec.get("distinct_lists", []):
        coverage[k] = sorted(distinct.get(k, ()))[:200]
    evidence = {
        "property_id": check_id,
        "tier": tier,
        "seed": seed,
        "level": spec["level"],
        "coverage": coverage,
        "assumptions": spec.get("assumptions", []),
        "wall_s": round(time.time() - t_start, 1),
        "violations": len(new_violations),
    }
    evdir = os.environ.get("VERIF_EVIDENCE_DIR", f"{VERIF}/evidence")
    os.makedirs(evdir, exist_ok=True)
    tmp = f"{evdir}/{check_id}.json.tmp"
    with open(tmp, "w") as f:
        json.dump(evidence, f, indent=1, sort_keys=True)
    os.replace(tmp, f"{evdir}/{check_id}.json")

    for k, v in known_hits:
        log(f"KNOWN-FINDING: property={check_id} {k['signature']}: "
            f"{k.get('description', '')[:160]}")
    for x in inconclusive[:10]:
        log(f"INCONCLUSIVE property={check_id} {x}")
    log(f"{check_id} tier={tier} seed={seed}: evaluations={evaluations} "
        f"distinct_nontrivial={nontrivial} shards={conclusive_shards}/"
        f"{nshards} wall={evidence['wall_s']}s")
    if new_violations:
        for v in new_violations:
            log(f"VIOLATION property={check_id} replay={v['replay']}")
            log(f"  signature: {v['signature']}")
            log(f"  detail: {v['detail'][:600]}")
        return 1
    if evaluations < min_evals or nontrivial < 2 or conclusive_shards == 0:
        log(f"INCONCLUSIVE property={check_id} observed too little "
            f"(evaluations={evaluations} < {min_evals} or "
            f"distinct_nontrivial={nontrivial} < 2)")
        return 2
    # clean per-run scratch (keeps logs only on failure)
    if os.environ.get("KVH_KEEP") is None:
        shutil.rmtree(f"{WORK}/{check_id}/s{seed}", ignore_errors=True)
    return 0


if __name__ == "__main__":
    sys.exit(main())
